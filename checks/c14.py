"""C14 -- degree-distribution algebra is consistent and invertible."""
from fractions import Fraction

from hypothesis import strategies as st

from vlib.runner import Violation, call
from checks import net_common as NC

PID = "C14"
RULE = ("Hypothesis-generated joint degree distributions over 1..4 topologies (1..8 keys, entries 0..6 with zero "
        "components and unequal supports, rational weights), arbitrary distinct topology name lists ('2-clique' first, "
        "elsewhere or absent), generated mixing matrices, and clean clique/cycle networks. Oracles: Fraction reference "
        "for excess distributions and means, inversion round trip P(k)/(1-P(0)), brute-force row sums, cross-module "
        "identity network-matrix row sums = excess distribution of the network's joint degree distribution (1e-9). "
        "Non-trivial = >= 2 topologies and >= 3 keys; distinct = canonical JSON")
ASSUMPTIONS = ["inversion is only required when some joint degree is positive in every topology (the statement's precondition)",
               "cross-module identity restricted to clique and cycle motifs (vertex topology-degree proportional to its annotation)"]
BUDGET = {"quick": (16, 300), "thorough": (16, 15000)}
NAMES = ["2-clique", "3-clique", "2-clique-blue", "tri", "sq#1", "", "τ", "edge", "4-cycle"]


@st.composite
def jdd_case(draw, tier):
    T = draw(st.integers(1, 4))
    keys = draw(st.lists(st.tuples(*[st.integers(0, 6)] * T), min_size=1, max_size=8, unique=True))
    if draw(st.booleans()):
        keys = list(dict.fromkeys(keys + [tuple(draw(st.integers(1, 4)) for _ in range(T))]))
    w = [draw(st.integers(1, 20)) for _ in keys]
    if draw(st.integers(0, 3)) == 3:
        # masses spanning many orders of magnitude (a very rare class next to common ones)
        w = [x * draw(st.sampled_from([1, 1, 10 ** 6, 10 ** 12])) for x in w]
    names = draw(st.lists(st.sampled_from(NAMES), min_size=T, max_size=T, unique=True))
    return {"kind": "jdd", "keys": [list(k) for k in keys], "w": w, "names": names,
            "dict_rot": draw(st.integers(0, 3)), "dict_rev": draw(st.booleans())}


@st.composite
def matrix_case(draw, tier):
    T = draw(st.integers(1, 3))
    # the matrices handed over may belong to a few of the network's topologies only: the excess tuples are then wider
    # than the list of names is long
    W = T + draw(st.sampled_from([0, 0, 0, 1, 2]))
    half = st.tuples(*[st.integers(0, 4)] * W)
    names = draw(st.lists(st.sampled_from(NAMES), min_size=T, max_size=T, unique=True))
    mats = []
    for _ in range(T):
        halves = draw(st.lists(half, min_size=1, max_size=4, unique=True))
        ent = draw(st.lists(st.tuples(st.sampled_from(halves), st.sampled_from(halves), st.integers(1, 30)), min_size=1, max_size=10))
        m = {}
        for a, b, v in ent:
            m[(tuple(a), tuple(b))] = v
            if draw(st.booleans()):
                m[(tuple(b), tuple(a))] = v
        mats.append([[list(a), list(b), v] for (a, b), v in m.items()])
    if T >= 2:
        # a topology without edges has an empty matrix (listed first or last)
        e = draw(st.sampled_from([None, None, 0, T - 1]))
        if e is not None:
            mats[e] = []
    return {"kind": "matrix", "names": names, "mats": mats}


def strategy(tier):
    net = st.tuples(NC.clean_network(maxN=14 if tier == "quick" else 40, minN=4, max_motifs=14 if tier == "quick" else 40),
                    st.sampled_from([None, None, None, "", 0]), st.sampled_from(["tuple", "tuple", "list", "ndarray"]),
                    st.sampled_from([0, 0, 1, 2])).map(
        lambda t: {"kind": "network", "net": {**t[0], "jd_type": t[2]}, "falsy_first_name": t[1], "name_prefix": t[3]})
    return st.one_of(jdd_case(tier), jdd_case(tier), matrix_case(tier), net)


def close(a, b, tol=1e-9):
    return abs(a - float(b)) <= tol * max(1.0, abs(float(b)))


def cmp_dict(got, want, what):
    if set(got) != set(want):
        raise Violation(what + "-keys", f"keys {sorted(got)} != {sorted(want)}")
    for k, w in want.items():
        if not close(got[k], w):
            raise Violation(what, f"entry {k}: library {got[k]!r}, reference {w} = {float(w)!r}")


def forward_ref(P, T):
    qs = []
    for i in range(T):
        mean = sum(k[i] * p for k, p in P.items())
        q = {}
        for k, p in P.items():
            if k[i] > 0:
                kk = list(k)
                kk[i] -= 1
                q[tuple(kk)] = k[i] * p / mean
        qs.append(q)
    return qs


def check_jdd(case):
    from gcmpy import JointExcessfromJDD, JointDegreeFromExcess, AverageJointDegreeFromJDD
    keys = [tuple(k) for k in case["keys"]]
    tot = sum(case["w"])
    Pq = {k: Fraction(w, tot) for k, w in zip(keys, case["w"])}
    P = {k: float(v) for k, v in Pq.items()}
    T = len(keys[0])
    names = case["names"]
    given = dict(P)
    # mean
    av = call("average", AverageJointDegreeFromJDD.get_average_joint_degrees, P)
    for i in range(T):
        w = sum(k[i] * p for k, p in Pq.items())
        if not close(av[i], w):
            raise Violation("mean", f"mean joint degree of topology {i}: {av[i]!r}, P-weighted mean {w}")
    # forward
    qs = call("forward", JointExcessfromJDD.get_joint_excess_distributions, P)
    if P != given:
        raise Violation("input-mutated", "the distribution passed in was modified")
    ref = forward_ref(Pq, T)
    if len(qs) != T:
        raise Violation("forward-arity", f"{len(qs)} excess distributions for {T} topologies")
    for i in range(T):
        cmp_dict(qs[i], ref[i], f"excess-distribution")
        if ref[i] and not close(sum(qs[i].values()), 1):
            raise Violation("excess-sum", f"topology {i}: excess distribution sums to {sum(qs[i].values())!r}")
    # converters mutually inverse
    # (the names may be handed over as any iterable: a list, a tuple or a one-shot iterator)
    feed = {0: lambda: list(names), 1: lambda: tuple(names), 2: lambda: iter(list(names)), 3: lambda: (n for n in names)}[
        (len(keys) + T) % 4]
    d = call("list->dict", JointExcessfromJDD.convert_list_qks_to_dict, qs, feed())
    if list(d.keys()) != list(names) or any(d[n] != q for n, q in zip(names, qs)):
        raise Violation("convert-list-dict", f"convert_list_qks_to_dict gave {d} for names {names}")
    back = call("dict->list", JointExcessfromJDD.convert_dict_qks_to_list, d, feed())
    if back != qs:
        raise Violation("convert-roundtrip", "convert_dict_qks_to_list(convert_list_qks_to_dict(q)) != q")
    classes = {f"T{T}"}
    if "2-clique" not in names:
        classes.add("names_without_2-clique")
    elif names[0] != "2-clique":
        classes.add("2-clique_not_first")
    zero = (0,) * T
    if zero in Pq:
        classes.add("P0_positive")
    # inversion
    if any(all(x > 0 for x in k) for k in keys):
        classes.add("invertible")
        # the mapping handed over may list the topologies in any insertion order; the names list fixes positions
        order = list(names)
        k = case.get("dict_rot", 0) % len(order)
        order = order[k:] + order[:k]
        if case.get("dict_rev"):
            order.reverse()
        dd = {n: dict(d[n]) for n in order}
        if order != list(names):
            classes.add("dict_order_differs_from_names")
        inv = call("inversion", JointDegreeFromExcess.get_joint_degree_distribution, dd, list(names))
        p0 = Pq.get(zero, Fraction(0))
        want = {k: p / (1 - p0) for k, p in Pq.items() if k != zero}
        cmp_dict(inv, want, "inversion")
    return {"nontrivial": T >= 2 and len(keys) >= 3, "classes": sorted(classes)}


def check_matrix(case):
    from gcmpy import JointExcessJointDegreeMatrices, JointExcessFromEjk, ToolsNames as TN
    names = case["names"]
    ejks = {}
    for n, m in reversed(list(zip(names, case["mats"]))):  # dict order deliberately differs from the names list
        ejks[n] = {tuple(a) + tuple(b): float(v) for a, b, v in m}
    M = call("construct", JointExcessJointDegreeMatrices, {TN.EJKS: ejks, TN.EDGE_NAMES: list(names)})
    for n, m in zip(names, case["mats"]):
        halves = {tuple(a) for a, b, v in m} | {tuple(b) for a, b, v in m}
        if set(map(tuple, M.excess_degree_keys[n])) != halves:
            raise Violation("key-halves", f"{n}: excess_degree_keys {M.excess_degree_keys[n]} != halves {sorted(halves)}")
    qs = call("row-sums", JointExcessFromEjk.get_excess_joint_distributions, M)
    for n, m in zip(names, case["mats"]):
        want = {}
        for a, b, v in m:
            want[tuple(a)] = want.get(tuple(a), 0) + Fraction(v)
        cmp_dict(qs[n], want, "row-sums")
    for i, n in enumerate(names):
        if call("topology-index", M.get_topology_index, n) != i:
            raise Violation("topology-index", f"index of {n!r}")
    cl = ["matrix"]
    if any(not m for m in case["mats"]):
        cl.append("empty_matrix")
    if any(m and len(m[0][0]) > len(names) for m in case["mats"]):
        cl.append("tuples_wider_than_names")
    return {"nontrivial": len(names) >= 2 and sum(len(m) for m in case["mats"]) >= 3, "classes": cl}


def check_network(case):
    from gcmpy import (JointExcessJointDegree, JointExcessFromEjk, JointExcessfromJDD,
                       JointDegreeDistributionFromNetwork, ToolsNames as TN)
    net = case["net"]
    if case.get("falsy_first_name") is not None and len(net["topos"]) >= 1 and "names" not in net["topos"][0]:
        # a topology label may be any value, '' or 0 included
        net = {**net, "topos": [{**net["topos"][0], "name": case["falsy_first_name"]}] + list(net["topos"][1:])}
    G, jds = NC.build_graph(net)
    # the names handed to the tools are equal to the edge attributes but separately created objects
    names = ["".join(list(n)) if isinstance(n, str) else n for n in NC.names(net)]
    P = call("jdd-from-network", JointDegreeDistributionFromNetwork.get_joint_degree_distribution, G)
    N = net["N"]
    want = {}
    for jd in jds:
        want[jd] = want.get(jd, 0) + Fraction(1, N)
    cmp_dict(P, want, "network-jdd")
    classes = {"network"}
    if net.get("jd_type", "tuple") != "tuple":
        classes.add("annotations_" + net["jd_type"])
    T = len(names)
    if case.get("name_prefix") and case["name_prefix"] < T:
        # matrices of the first m topologies only (joint degree tuples keep their full length)
        names = names[:case["name_prefix"]]
        classes.add("subset_of_topologies_requested")
    ej = call("get_ejks", JointExcessJointDegree({TN.NETWORK: G, TN.EDGE_NAMES: list(names)}).get_ejks)
    rows = call("row-sums", JointExcessFromEjk.get_excess_joint_distributions, ej)
    fwd = call("forward", JointExcessfromJDD.get_joint_excess_distributions, P)
    ref = forward_ref(want, T)
    for i, n in enumerate(names):
        cmp_dict(rows[n], ref[i], "cross-module-rows")
    if len(fwd) != T:
        raise Violation("forward-arity", f"{len(fwd)} excess distributions derived from the network's joint degree distribution, {T} topologies")
    for i in range(T):
        cmp_dict(fwd[i], ref[i], "cross-module-forward")
    # the annotations are still the joint degrees they were (nothing was counted down in place)
    from gcmpy import NetworkNames as NN
    for v in range(N):
        if tuple(int(x) for x in G.nodes[v][NN.JOINT_DEGREE]) != tuple(jds[v]):
            raise Violation("input-mutated", f"vertex {v}: joint degree annotation {jds[v]} became {G.nodes[v][NN.JOINT_DEGREE]!r}")
    return {"nontrivial": T >= 2 and len(want) >= 3, "classes": sorted(classes)}


def check(case):
    if case["kind"] == "jdd":
        return check_jdd(case)
    if case["kind"] == "matrix":
        return check_matrix(case)
    return check_network(case)
