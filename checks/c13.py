"""C13 -- mixing matrices extracted from a network are exact, symmetric and repeatable."""
from fractions import Fraction

from hypothesis import strategies as st

from vlib.runner import Violation, call, clone_point
from checks import net_common as NC

PID = "C13"
RULE = ("Hypothesis-generated annotated networks: (a) clean motif networks; (b) arbitrary simple graphs with 1..4 "
        "topology names on the edges and freely generated vertex annotations (>= 1 where the vertex has an edge of that "
        "topology), name lists possibly containing a topology without edges; r in 1..4 repeated get_ejks() calls on one "
        "extractor; plus the overall-degree variant on the bare graph. Annotations as tuples, lists or a mixture; names possibly falsy (0, ''); matrices requested for a prefix of the topologies; vertices named by the tuple of an existing edge; a second extractor alive. Oracle: Fraction extractor written from the "
        "definition (1e-12 plus 2e-16 per accumulated term). Non-trivial = some topology with >= 2 excess classes and r >= 2; distinct = canonical JSON")
ASSUMPTIONS = ["simple graphs (no self-loops / multi-edges), as the quantifier states"]
BUDGET = {"quick": (16, 300), "thorough": (16, 15000)}


@st.composite
def free_network(draw, tier):
    n = draw(st.integers(2, 9 if tier == "quick" else 20))
    T = draw(st.integers(1, 4))
    extra = draw(st.booleans())
    pairs = [(i, j) for i in range(n) for j in range(i + 1, n)]
    es = draw(st.lists(st.sampled_from(pairs), min_size=1, max_size=min(len(pairs), 25), unique=True))
    used_T = T - 1 if (extra and T > 1) else T
    edges = [[u, v, draw(st.integers(0, used_T - 1))] for u, v in es]
    consistent = draw(st.booleans())
    jd = [[0] * T for _ in range(n)]
    for u, v, t in edges:
        jd[u][t] += 1
        jd[v][t] += 1
    if not consistent:
        for v in range(n):
            for t in range(T):
                if jd[v][t] > 0:
                    jd[v][t] = draw(st.integers(1, 4))
                else:
                    jd[v][t] = draw(st.integers(0, 2))
    style = draw(st.sampled_from(["plain", "odd", "falsy"]))
    names = [f"{i + 2}-clique" if style == "plain" else f"top/{i}-x" for i in range(T)]
    if style == "falsy":
        names = [0, "", 1, "x"][:T]  # a topology label may be any value: coordinates 0, 1, 2 or an empty string
    return {"free": True, "n": n, "names": names, "edges": edges, "jd": jd,
            # vertex ids need not be 0..n-1 in insertion order; annotations may be tuples or lists
            # ("edge_named": vertex names are arbitrary hashables -- two vertices are named by the pair of names of an
            # existing edge, in both orientations, as line-graph / incidence constructions do)
            "labels": draw(st.sampled_from(["id", "id", "perm", "offset", "str", "edge_named"])),
            "perm": list(draw(st.permutations(list(range(n))))),
            "insert": draw(st.sampled_from(["nodes_first", "by_edges"])),
            "jd_type": draw(st.sampled_from(["tuple", "tuple", "list", "mixed"])),
            "weights": draw(st.booleans())}


def enumerated(tier, seed):
    """one large network (more than 10^5 edges of one topology): anything that scans edges with an early exit or a
    relative tolerance has its failure region here"""
    return [{"big": {"ring": 120000, "triangles": 1000}, "r": 1}]


ENUM_CHUNK = 1


def strategy(tier):
    r = st.integers(1, 4)
    # name_prefix: the extractor may be asked for the first m topologies only (the joint degree tuples keep their
    # full length, edges of the other topologies stay in the network)
    pre = st.sampled_from([0, 0, 0, 1, 2])
    a = st.tuples(NC.clean_network(maxN=14 if tier == "quick" else 40, minN=4, max_motifs=12 if tier == "quick" else 40), r, st.booleans(), pre).map(
        lambda t: {"net": t[0], "r": t[1], "names_as_tuple": t[2], "name_prefix": t[3]})
    a = st.tuples(a, st.integers(0, 3)).map(lambda t: {**t[0], "swap_after_construct": True} if t[1] == 0 else t[0])
    b = st.tuples(free_network(tier), r, st.booleans(), pre).map(lambda t: {"net": t[0], "r": t[1], "names_as_tuple": t[2], "name_prefix": t[3]})
    return st.one_of(a, b, b)


def build(case):
    import networkx as nx
    from gcmpy import NetworkNames as NN
    if case.get("big"):
        b = case["big"]
        G = nx.Graph()
        n = b["ring"]
        for i in range(n):
            G.add_edge(i, (i + 1) % n)
            G.edges[i, (i + 1) % n][NN.TOPOLOGY] = "2-clique"
        v = n
        for t in range(b["triangles"]):
            # triangles hang on ring vertices 0, 7, 14, ...: a second joint-degree class
            a = (7 * t) % n
            for x, y in ((a, v), (a, v + 1), (v, v + 1)):
                G.add_edge(x, y)
                G.edges[x, y][NN.TOPOLOGY] = "3-clique"
            v += 2
        for u in G:
            k3 = sum(1 for w in G[u] if G.edges[u, w][NN.TOPOLOGY] == "3-clique") // 2
            k2 = sum(1 for w in G[u] if G.edges[u, w][NN.TOPOLOGY] == "2-clique")
            G.nodes[u][NN.JOINT_DEGREE] = (k2, k3)
        return G, ["2-clique", "3-clique"]
    net = case["net"]
    if net.get("free"):
        G = nx.Graph()
        kind = net.get("labels", "id")
        perm = net.get("perm") or list(range(net["n"]))
        lab = {"id": lambda v: v, "perm": lambda v: perm[v], "offset": lambda v: 4 * perm[v] + 3,
               "str": lambda v: f"v{perm[v]}", "edge_named": lambda v: v}[kind]
        if kind == "edge_named" and net["edges"]:
            a, b = net["edges"][0][0], net["edges"][0][1]
            others = [v for v in range(net["n"]) if v not in (a, b)]
            ren = {}
            if others:
                ren[others[0]] = (a, b)
            if len(others) > 1:
                ren[others[1]] = (b, a)
            lab = lambda v: ren.get(v, v)
        conv = list if net.get("jd_type") == "list" else tuple
        if net.get("jd_type") == "mixed":
            # tuples on some vertices, lists on others (a degree sequence given as lists and topped up by the
            # handshake step looks like this): equal joint degrees then compare unequal as objects
            mixed = {v: (list if (v * 7 + len(net["edges"])) % 3 else tuple) for v in range(net["n"])}
        if net.get("insert") != "by_edges":
            for v in range(net["n"]):
                G.add_node(lab(v))
        for u, v, t in net["edges"]:
            G.add_edge(lab(u), lab(v))
            G.edges[lab(u), lab(v)][NN.TOPOLOGY] = net["names"][t]
            if net.get("weights"):
                # other edge data may be present on an annotated network (it must not influence the matrices)
                G.edges[lab(u), lab(v)]["weight"] = [0, 2.5, 3, 1][(u + 2 * v) % 4]
        for v in range(net["n"]):
            G.add_node(lab(v))
            G.nodes[lab(v)][NN.JOINT_DEGREE] = (mixed[v] if net.get("jd_type") == "mixed" else conv)(net["jd"][v])
        return G, list(net["names"])
    G, _ = NC.build_graph(net)
    return G, NC.names(net)


def reference(G, names):
    from gcmpy import NetworkNames as NN
    out = {}
    for i, name in enumerate(names):
        cnt = {}
        E = 0
        for u, v, d in G.edges(data=True):
            if d[NN.TOPOLOGY] != name:
                continue
            E += 1
            for a, b in ((u, v), (v, u)):
                ja = list(G.nodes[a][NN.JOINT_DEGREE])
                jb = list(G.nodes[b][NN.JOINT_DEGREE])
                ja[i] -= 1
                jb[i] -= 1
                k = tuple(ja) + tuple(jb)
                cnt[k] = cnt.get(k, 0) + 1
        out[name] = {k: Fraction(c, 2 * E) for k, c in cnt.items()}
    return out


def compare_matrix(got, want, what, n_terms=0):
    if set(got) != set(want):
        raise Violation(what + "-keys", f"keys {sorted(got)} != {sorted(want)}")
    tol = 1e-12 + 2e-16 * n_terms  # an entry is a sum of up to n_terms floating-point increments
    for k, w in want.items():
        if abs(got[k] - float(w)) > tol:
            raise Violation(what, f"entry {k}: extractor {got[k]!r}, definition {w} = {float(w)!r}")


def check(case):
    from gcmpy import JointExcessJointDegree, JointExcessDegree, ToolsNames as TN
    G, names = build(case)
    Tj = len(names)  # length of the joint degree tuples
    if case.get("name_prefix") and case["name_prefix"] < len(names):
        names = names[:case["name_prefix"]]
    import copy
    snap = (copy.deepcopy(dict(G.nodes(data=True))), copy.deepcopy({frozenset(e[:2]): e[2] for e in G.edges(data=True)}))
    # the name sequence handed to the extractor: equal to the edge attributes but separately created objects, as a
    # list or (same content) a tuple
    fresh_names = ["".join(list(n)) if isinstance(n, str) else n for n in names]
    seqtype = tuple if (case.get("names_as_tuple") and not case.get("big")) else list
    ext = call("construct", JointExcessJointDegree, {TN.NETWORK: G, TN.EDGE_NAMES: seqtype(fresh_names)})
    # a second extractor for the same network with the names in reverse order is built and kept alive, and the caller
    # may go on with a copy of the first
    decoy = call("construct-second-extractor", JointExcessJointDegree, {TN.NETWORK: G, TN.EDGE_NAMES: list(reversed(fresh_names))})
    if case.get("swap_after_construct"):
        # the network goes on living after the extractor was attached to it: a joint-degree-preserving double edge
        # swap inside one topology (first admissible pair in a fixed order), then the matrices are asked for
        from gcmpy import NetworkNames as NN
        es = sorted(G.edges(data=True), key=lambda e: (repr(e[2].get(NN.TOPOLOGY)), repr(e[0]), repr(e[1])))
        done = False
        for i1 in range(len(es)):
            for i2 in range(i1 + 1, len(es)):
                (u, v, d1), (x, y, d2) = es[i1], es[i2]
                if d1[NN.TOPOLOGY] != d2[NN.TOPOLOGY] or len({u, v, x, y}) < 4 or G.has_edge(u, y) or G.has_edge(x, v):
                    continue
                G.remove_edge(u, v)
                G.remove_edge(x, y)
                d1, d2 = dict(d1), dict(d2)
                G.add_edge(u, y)
                G.edges[u, y].update(d1)
                G.add_edge(x, v)
                G.edges[x, v].update(d2)
                done = True
                break
            if done:
                break
        if done:
            snap = (copy.deepcopy(dict(G.nodes(data=True))), copy.deepcopy({frozenset(e[:2]): e[2] for e in G.edges(data=True)}))
    ext = clone_point(ext, case)
    want = reference(G, names)
    T = Tj
    first_keys = None
    classes = set()
    for rep in range(case["r"]):
        res = call("get_ejks", ext.get_ejks)
        tag = "first-call" if rep == 0 else "repeat-call"
        ejks = res.ejks
        if set(ejks) != set(names):
            raise Violation(tag + "-topologies", f"matrices for {sorted(ejks)}, names {names}")
        for name in names:
            compare_matrix(ejks[name], want[name], tag, n_terms=2 * G.number_of_edges())
            m = ejks[name]
            for k, v in m.items():
                kk = k[T:] + k[:T]
                if abs(m.get(kk, 0.0) - v) > 1e-12:
                    raise Violation(tag + "-symmetry", f"{name}: e[{k}]={v} but e[{kk}]={m.get(kk)}")
            if m and abs(sum(m.values()) - 1) > 1e-9:
                raise Violation(tag + "-sum", f"{name}: matrix sums to {sum(m.values())!r}")
        keys = {n: sorted(res.excess_degree_keys.get(n, [])) for n in names}
        for i, name in enumerate(names):
            need = {k[:T] for k in want[name]}
            if not need <= set(map(tuple, keys[name])):
                raise Violation(tag + "-excess-keys", f"{name}: excess_degree_keys {keys[name]} lack {sorted(need - set(keys[name]))}")
        if first_keys is None:
            first_keys = keys
        elif keys != first_keys:
            raise Violation("repeat-call-excess-keys", f"excess_degree_keys changed between calls: {first_keys} -> {keys}")
        if list(res.topology_names) != list(names):  # (tuple or list: same content)
            raise Violation(tag + "-names", f"topology_names {res.topology_names}")
    # row sums = excess distribution of that topology's edge ends
    for i, name in enumerate(names):
        rows = {}
        for k, w in want[name].items():
            rows[k[:T]] = rows.get(k[:T], 0) + w
        if want[name] and sum(rows.values()) != 1:
            raise RuntimeError("harness: reference rows")
        if len(rows) >= 2:
            classes.add("ge2_excess_classes")
        if any(k[:T] == k[T:] for k in want[name]):
            classes.add("self_paired_class")
        if not want[name]:
            classes.add("topology_without_edges")
    after = (dict(G.nodes(data=True)), {frozenset(e[:2]): e[2] for e in G.edges(data=True)})
    if after != snap:
        raise Violation("input-mutated", "the network was modified by the extraction")
    # overall-degree variant on the bare graph
    ov = call("overall", JointExcessDegree.get_ejk, G)
    E = G.number_of_edges()
    wo = {}
    for u, v in G.edges():
        for a, b in ((u, v), (v, u)):
            k = (G.degree(a) - 1, G.degree(b) - 1)
            wo[k] = wo.get(k, 0) + Fraction(1, 2 * E)
    compare_matrix(ov, wo, "overall", n_terms=2 * G.number_of_edges())
    if case.get("big"):
        classes.add("large_network")
        return {"nontrivial": True, "classes": sorted(classes)}
    if case.get("names_as_tuple"):
        classes.add("names_as_tuple")
    if len(names) < Tj:
        classes.add("subset_of_topologies_requested")
    if case["net"].get("jd_type") == "mixed":
        classes.add("mixed_list_tuple_annotations")
    if case["net"].get("free"):
        classes.add("free_annotations")
        if case["net"].get("labels", "id") != "id" or case["net"].get("insert") == "by_edges":
            classes.add("labels_not_in_insertion_order")
        if case["net"].get("jd_type") == "list":
            classes.add("list_annotations")
    if case.get("swap_after_construct"):
        classes.add("network_rewired_between_construction_and_extraction")
    classes.add(f"r{case['r']}")
    return {"nontrivial": "ge2_excess_classes" in classes and case["r"] >= 2, "classes": sorted(classes)}
