"""Shared engine for the MCMC rewiring properties (C11, C12): journalling graph, driver, clause predicates.

case: {"net": <net_common clean network>, "target": {"seed": int, "holes": [[ti, i, j, "absent"|"zero"], ...]},
       "L": int | None (CONVERGENCE_LIMIT, None = leave to the default), "search": int | None (SEARCH_LIMIT),
       "rng": {"mode": "seed", "seed": s} | {"mode": "script", "ints": [...], "tail": s}}
"""
import copy
from collections import Counter

import networkx as nx
from hypothesis import strategies as st

from vlib import rng
from vlib.runner import Violation, code_frame
from checks import net_common as NC
from checks.c06 import positive

DRAW_BUDGET = 200000
FINDING_ID = "C11-corner-motif-id"


class JournalGraph(nx.Graph):
    """nx.Graph whose copies (Graph.copy() keeps the subclass) record every add_edge / remove_edge.
    Graph.copy() itself fills the copy through add_nodes_from / add_edges_from, which do not pass here."""

    def __init__(self, *a, **k):
        self.journal = []
        super().__init__(*a, **k)

    def add_edge(self, u, v, **attr):
        self.journal.append(("add", u, v, self.has_edge(u, v)))
        return super().add_edge(u, v, **attr)

    def remove_edge(self, u, v):
        d = dict(self.edges[u, v]) if self.has_edge(u, v) else None
        self.journal.append(("remove", u, v, d))
        return super().remove_edge(u, v)

    # bulk mutators do not pass through add_edge / remove_edge in networkx: they are recorded as such, so that a
    # journal is either complete or recognisably of another shape (then only the returned graph is judged)
    def add_edges_from(self, ebunch_to_add, **attr):
        ebunch_to_add = list(ebunch_to_add)
        self.journal.append(("bulk_add", len(ebunch_to_add)))
        return super().add_edges_from(ebunch_to_add, **attr)

    def remove_edges_from(self, ebunch):
        ebunch = list(ebunch)
        self.journal.append(("bulk_remove", len(ebunch)))
        return super().remove_edges_from(ebunch)

    def update(self, *a, **k):
        self.journal.append(("bulk_update", 0))
        return super().update(*a, **k)

    def clear(self):
        self.journal.append(("bulk_clear", 0))
        return super().clear()

    def remove_node(self, n):
        self.journal.append(("bulk_remove_node", 0))
        return super().remove_node(n)

    def copy(self, as_view=False):
        H = super().copy(as_view=as_view)
        if isinstance(H, JournalGraph):
            H.journal.clear()  # filling the copy is not a mutation of interest
        return H


_ALARM = {"armed": False}


def _alarm_handler(signum, frame):
    # the timer repeats every second once it has expired: should one Budget be absorbed somewhere on its way up (it
    # has been observed), the next one ends the run
    if _ALARM["armed"]:
        raise rng.Budget()


def pristine_shaped(journal):
    """True if the journal consists of swap batches as the pinned implementation writes them: single-edge adds
    followed by as many single-edge removes, nothing else."""
    if any(ev[0] not in ("add", "remove") for ev in journal):
        return False
    return all(b["adds"] and len(b["adds"]) == len(b["removes"]) for b in batches(journal))


def excess_keys(case):
    """per topology index: sorted list of excess tuples occurring in the network."""
    jds = NC.joint_degrees(case["net"])
    T = len(NC.names(case["net"]))
    out = []
    for i in range(T):
        ks = set()
        for jd in jds:
            if jd[i] > 0:
                k = list(jd)
                k[i] -= 1
                ks.add(tuple(k))
        out.append(sorted(ks))
    return out


def used_pairings(case):
    jds = NC.joint_degrees(case["net"])
    nms = NC.names(case["net"])
    used = [set() for _ in nms]
    for ti, vs in case["net"]["motifs"]:
        t = case["net"]["topos"][ti]
        for u, v, nm in NC.motif_edges_named(t, vs):
            ci = nms.index(nm)
            a, b = list(jds[u]), list(jds[v])
            a[ci] -= 1
            b[ci] -= 1
            used[ci].add(frozenset((tuple(a), tuple(b))))
    return used


def target_matrices(case):
    """dict topology name -> {a+b: weight}; symmetric, positive except the (unused) pairings listed as holes."""
    keys = excess_keys(case)
    used = used_pairings(case)
    tgt = case["target"]
    if tgt.get("mode") == "assortative":
        # (1-lam) q(a) q(b) + lam * [a == b] q(a), q = distribution of edge ends over excess classes
        lam = tgt["lambda"]
        jds = NC.joint_degrees(case["net"])
        mats = {}
        nms = NC.names(case["net"])
        for ci, cname in enumerate(nms):
            q = {}
            for mti, vs in case["net"]["motifs"]:
                for u, v, nm in NC.motif_edges_named(case["net"]["topos"][mti], vs):
                    if nm != cname:
                        continue
                    for w in (u, v):
                        k = list(jds[w])
                        k[ci] -= 1
                        q[tuple(k)] = q.get(tuple(k), 0) + 1
            tot = sum(q.values()) or 1
            m = {}
            for a in q:
                for b in q:
                    if tgt.get("disassortative"):
                        # less weight on like-with-like pairings than neutral mixing has (still full support)
                        m[a + b] = q[a] * q[b] / tot / tot * ((1 - lam) if a == b else 1.0)
                    else:
                        m[a + b] = (1 - lam) * q[a] * q[b] / tot / tot + (lam * q[a] / tot if a == b else 0.0)
            z = sum(m.values()) or 1.0
            m = {k_: v_ / z for k_, v_ in m.items()}
            mats[cname] = m
        return mats, {}
    holes = {}
    for ti, i, j, how in tgt.get("holes", []):
        if ti < len(keys) and keys[ti]:
            a, b = keys[ti][i % len(keys[ti])], keys[ti][j % len(keys[ti])]
            if frozenset((a, b)) not in used[ti]:
                holes[(ti, frozenset((a, b)))] = how
    mats = {}
    for ti, cname in enumerate(NC.names(case["net"])):
        m = {}
        for a in keys[ti]:
            for b in keys[ti]:
                h = holes.get((ti, frozenset((a, b))))
                if h == "absent":
                    continue
                lo, hi = (a, b) if a <= b else (b, a)
                w = positive(tgt["seed"], ti, lo, hi)
                if tgt.get("huge") and positive(tgt["seed"] + 13, ti, lo, hi) < 0.55:
                    # un-normalised targets are legal (only ratios of weights matter): about half of the pairings
                    # carry weights whose pairwise products leave the double range
                    w *= 1e160
                m[a + b] = 0.0 if h == "zero" else w
        mats[cname] = m
    return mats, holes


@st.composite
def mcmc_case(draw, tier, holes=False, maxN=None):
    big = tier == "thorough"
    pool = [("clique", 2), ("clique", 3), ("clique", 4), ("cycle", 4), ("cycle", 5), ("split4", 4), ("path3", 3)]
    net = draw(NC.clean_network(maxN=maxN or (40 if not big else 120), minN=16, max_motifs=30 if not big else 120,
                                min_topos=1, max_topos=3, min_motifs=6, min_rounds=2, topo_pool=pool))
    net["node_order"] = draw(st.sampled_from(["sorted", "sorted", "by_motifs"]))
    net["jd_type"] = draw(st.sampled_from(["tuple", "tuple", "list", "ndarray"]))
    net["tagged"] = draw(st.booleans())
    # vertex names: 0..N-1, or shifted to start at -2 (hash(-1) == hash(-2)), or with vertex 1 renamed 2**61 - 1
    # (hash(2**61 - 1) == hash(0)): distinct vertices whose hashes collide
    net["labels"] = draw(st.sampled_from(["id", "id", "id", "neg", "mersenne"]))
    L = draw(st.sampled_from([0, 0, 1, 2, 3, 5, 10, 25, 60]))
    nedges = sum(len(NC.motif_edges(net["topos"][ti]["kind"], vs)) for ti, vs in net["motifs"])
    if nedges <= 40 and draw(st.integers(0, 5)) == 5:
        L = None
    search = draw(st.sampled_from([None, 1, 2, 5, 10, 20, 30]))
    tgt = {"seed": draw(st.integers(0, 10 ** 6)), "holes": [], "dict_reversed": draw(st.booleans())}
    if holes:
        tgt["holes"] = [[draw(st.integers(0, 2)), draw(st.integers(0, 30)), draw(st.integers(0, 30)),
                         draw(st.sampled_from(["absent", "zero"]))] for _ in range(draw(st.integers(1, 12)))]
        if draw(st.integers(0, 3)) == 0:
            tgt["huge"] = True
    r = draw(st.one_of(
        st.fixed_dictionaries({"mode": st.just("seed"), "seed": st.integers(0, 2 ** 31)}),
        st.fixed_dictionaries({"mode": st.just("seed"), "seed": st.integers(0, 2 ** 31)}),
        st.fixed_dictionaries({"mode": st.just("script"), "ints": st.lists(st.integers(0, 200), max_size=60),
                               "tail": st.integers(0, 10 ** 6),
                               # acceptance variates: extremal values first (0.0 is a legal outcome of random())
                               "floats": st.lists(st.sampled_from([0.0, 0.0, 0.0, 0.25, 0.75, 0.999999]), max_size=120)})))
    c = {"net": net, "target": tgt, "L": L, "search": search, "rng": r}
    if draw(st.integers(0, 4)) == 4:
        c["earlier_rewire"] = True
    elif draw(st.integers(0, 4)) == 4:
        c["limits_via_setter"] = True
    if draw(st.integers(0, 3)) == 3:
        # the rewiring object is first constructed for another network on the same vertex labels (other joint
        # degrees), then given this network through its public setter
        c["constructed_for_shift"] = draw(st.integers(1, 7))
    return c


def _plain(d):
    """node data with array-like annotations turned into tuples (so that snapshots compare with ==)."""
    out = {}
    for k, v in d.items():
        if hasattr(v, "tolist"):
            out[k] = tuple(int(x) for x in v.tolist())
        elif isinstance(v, (list, tuple)):
            out[k] = tuple(v)
        else:
            out[k] = v  # scalars, strings, identity-compared objects: kept by reference
    return out


def snapshot(G):
    return ({n: _plain(d) for n, d in G.nodes(data=True)},
            copy.deepcopy({frozenset((u, v)): d for u, v, d in G.edges(data=True)}))


class Run:
    pass


def run_rewire(case):
    """Build the network, run the rewiring under the case's RNG schedule and a draw budget.
    Returns a Run with: before/after snapshots of the input, out (returned graph or None), journal (events of
    the working copy), error (exception or None), where (construct|rewire), budget (bool)."""
    from gcmpy import (Network, MarkovChainMonteCarloRewiring, JointExcessJointDegreeMatrices, ToolsNames as TN)
    net = case["net"]
    G, jds = NC.build_graph(net, graph_cls=JournalGraph)
    lab = {"neg": lambda v: v - 2, "mersenne": lambda v: 2 ** 61 - 1 if v == 1 else v}.get(net.get("labels"))
    if lab:
        G = nx.relabel_nodes(G, {v: lab(v) for v in G.nodes()}, copy=True)
        jds = {lab(v): jd for v, jd in enumerate(jds)}
    G.journal.clear()
    N = Network()
    N.G = G
    mats, holes = target_matrices(case)
    if case["target"].get("dict_reversed"):
        # the mapping of matrices may list the topologies in another order than the names list
        mats = dict(reversed(list(mats.items())))
    ej = JointExcessJointDegreeMatrices({TN.EJKS: mats, TN.EDGE_NAMES: NC.names(net)})
    params = {TN.NETWORK: N, TN.EJKS: ej}
    if case["L"] is not None:
        params[TN.CONVERGENCE_LIMIT] = case["L"]
    if case["search"] is not None:
        params[TN.SEARCH_LIMIT] = case["search"]
    R = Run()
    R.G_in, R.jds, R.mats, R.holes = G, jds, mats, holes
    R.before = snapshot(G)
    R.out, R.error, R.where, R.budget, R.journal = None, None, None, False, []
    seen = set(id(x) for x in [G])
    r = case["rng"]
    target_swaps = (case["L"] if case["L"] is not None else 10 * len(R.before[1])) + 1
    budget = min(DRAW_BUDGET, 4000 + 500 * target_swaps)
    ctx = (rng.scripted(ints=[], tail_seed=r["seed"], budget=budget) if r["mode"] == "seed"
           else rng.scripted(ints=r["ints"], tail_seed=r.get("tail", 0), budget=budget, floats=r.get("floats") or ()))
    # find the working copy even when rewire() does not return: remember every JournalGraph created
    created = []
    orig_init = JournalGraph.__init__

    def init(self, *a, **k):
        orig_init(self, *a, **k)
        created.append(self)
    JournalGraph.__init__ = init
    # backstop for chains whose randomness is not drawn through the owned source (the draw budget then never runs
    # out): a wall-clock limit per run (6 s; an ordinary run takes milliseconds), reported as inconclusive exactly like an exhausted budget -- never a violation
    import os
    import signal
    # the handler stays installed for the life of the worker process (restoring the default disposition would let a
    # late SIGALRM terminate the worker) and does nothing unless a run is armed
    if signal.getsignal(signal.SIGALRM) is not _alarm_handler:
        signal.signal(signal.SIGALRM, _alarm_handler)
    _ALARM["armed"] = True
    signal.setitimer(signal.ITIMER_REAL, float(os.environ.get("VERIF_CASE_S", "6")), 1.0)
    try:
      try:
        with ctx:
            try:
                R.where = "construct"
                sh = case.get("constructed_for_shift")
                if sh:
                    n_ = net["N"]
                    other = {"N": n_, "topos": net["topos"],
                             "motifs": [[ti, [(v + sh) % n_ for v in vs]] for ti, vs in net["motifs"]]}
                    G0, _ = NC.build_graph(other)
                    if lab:
                        G0 = nx.relabel_nodes(G0, {v: lab(v) for v in G0.nodes()}, copy=True)
                    N0 = Network()
                    N0.G = G0
                    p0 = dict(params)
                    p0[TN.NETWORK] = N0
                    m = MarkovChainMonteCarloRewiring(p0)
                    m.network = N
                elif case.get("limits_via_setter") and case["L"] is not None and case["search"] is not None:
                    # constructed with generous limits, the limits of the case are then set through the properties
                    p1 = dict(params)
                    p1[TN.CONVERGENCE_LIMIT] = case["L"] + 50
                    p1[TN.SEARCH_LIMIT] = case["search"] + 40
                    m = MarkovChainMonteCarloRewiring(p1)
                    m.convergence_limit = case["L"]
                    m.search_limit = case["search"]
                else:
                    m = MarkovChainMonteCarloRewiring(params)
                R.where = "rewire"
                if case.get("earlier_rewire"):
                    # an earlier rewire() on the same object; only the last call is analysed
                    m.rewire()
                    del created[:]
                R.out = m.rewire()
            except rng.Budget:
                R.budget = True
            except Exception as e:  # noqa
                R.error = e
      finally:
        _ALARM["armed"] = False
        signal.setitimer(signal.ITIMER_REAL, 0)
    except rng.Budget:
        # the alarm went off while the run was being wound up
        _ALARM["armed"] = False
        signal.setitimer(signal.ITIMER_REAL, 0)
        R.budget = True
    finally:
        JournalGraph.__init__ = orig_init
    if R.out is not None and isinstance(R.out, JournalGraph) and R.out is not G:
        R.journal = list(R.out.journal)
        R.work = R.out
    else:
        cands = [g for g in created if g is not G and g.journal]
        R.work = cands[-1] if cands else None
        R.journal = list(R.work.journal) if R.work is not None else []
    R.journal_shape = "swap_batches"
    if R.journal and not pristine_shaped(R.journal):
        # the working copy is edited in another way (bulk calls, removes before adds, a freshly built graph, ...):
        # no per-swap analysis, the returned graph alone is judged
        R.journal_shape = "other"
        R.journal = []
    R.input_journal = list(G.journal)
    R.after = snapshot(G)
    return R


def batches(journal):
    """split the journal into swap batches: a run of adds followed by a run of removes."""
    out = []
    cur = {"adds": [], "removes": []}
    for ev in journal:
        if ev[0] == "add":
            if cur["removes"]:
                out.append(cur)
                cur = {"adds": [], "removes": []}
            cur["adds"].append(ev)
        else:
            cur["removes"].append(ev)
    if cur["adds"] or cur["removes"]:
        out.append(cur)
    return out


def motif_shapes_ok(state, case):
    """clause (C): ids unchanged and every id's edges form the original motif shape with the original topology name.
    state: dict frozenset edge -> attr dict.  Returns None if fine, else a message."""
    from gcmpy import NetworkNames as NN
    by_id = {}
    for e, d in state.items():
        by_id.setdefault(d.get(NN.MOTIF_IDS), []).append((e, d))
    net = case["net"]
    want_ids = set(range(len(net["motifs"])))
    if set(by_id) != want_ids:
        return f"motif ids present {sorted(map(repr, set(by_id) ^ want_ids))} differ from the original ids"
    for mid, (ti, vs) in enumerate(net["motifs"]):
        t = net["topos"][ti]
        es = by_id[mid]
        orig = nx.Graph()
        for u, v, nm in NC.motif_edges_named(t, vs):
            orig.add_edge(u, v, name=nm)
        if len(es) != orig.number_of_edges():
            return f"motif {mid} ({t['name']}) has {len(es)} edges, originally {orig.number_of_edges()}"
        if any(len(e) != 2 for e, _ in es):
            return f"motif {mid} contains a self-loop"
        H = nx.Graph()
        for e, d in es:
            u, v = tuple(e)
            H.add_edge(u, v, name=d.get(NN.TOPOLOGY))
        if H.number_of_nodes() != orig.number_of_nodes() or H.number_of_edges() != orig.number_of_edges():
            return (f"motif {mid} ({t['name']}) now spans {H.number_of_nodes()} vertices / {H.number_of_edges()} distinct edges: "
                    f"{sorted(map(sorted, H.edges()))}")
        if not nx.is_isomorphic(H, orig, edge_match=lambda a, b: a["name"] == b["name"]):
            return (f"motif {mid} ({t['name']}) no longer has its original shape: edges "
                    f"{sorted((sorted((u, v)), d['name']) for u, v, d in H.edges(data=True))}")
    return None


def degrees_ok(state, R, case):
    """clause (B) on an edge state: same edge count and per-vertex counter of incident topologies."""
    from gcmpy import NetworkNames as NN
    def counters(st_):
        c = {}
        for e, d in st_.items():
            for v in (tuple(e) if len(e) == 2 else tuple(e) * 2):
                c.setdefault(v, Counter())[d.get(NN.TOPOLOGY)] += 1
        return c
    if len(state) != len(R.before[1]):
        return f"edge count {len(state)} != {len(R.before[1])}"
    a, b = counters(state), counters(R.before[1])
    if a != b:
        bad = [v for v in set(a) | set(b) if a.get(v) != b.get(v)]
        return f"per-topology degrees changed at vertices {sorted(bad)[:6]}: {[(v, dict(b.get(v, {})), dict(a.get(v, {}))) for v in sorted(bad)[:3]]}"
    return None


def error_text(R):
    e = R.error
    return f"{type(e).__name__}@{code_frame(e)}: {e}"


def mixing_matrices(edge_state, node_jd, names):
    """harness-side extractor: dict name -> {a+b: fraction of that topology's edge ends} from an edge state."""
    from gcmpy import NetworkNames as NN
    out = {n: {} for n in names}
    cnt = {n: 0 for n in names}
    for e, d in edge_state.items():
        n = d.get(NN.TOPOLOGY)
        if n not in out or len(e) != 2:
            continue
        i = names.index(n)
        u, v = tuple(e)
        cnt[n] += 1
        for a, b in ((u, v), (v, u)):
            ka, kb = list(node_jd[a]), list(node_jd[b])
            ka[i] -= 1
            kb[i] -= 1
            k = tuple(ka) + tuple(kb)
            out[n][k] = out[n].get(k, 0) + 1
    return {n: {k: c / (2 * cnt[n]) for k, c in m.items()} for n, m in out.items()}


def distance(mats, target):
    d = 0.0
    for n in target:
        keys = set(target[n]) | set(mats.get(n, {}))
        d += sum(abs(mats.get(n, {}).get(k, 0.0) - target[n].get(k, 0.0)) for k in keys)
    return d


def configuration_network(N, seed, classes=((1, 1), (3, 1), (6, 0))):
    """clean network of 2-cliques and 3-cliques over three joint-degree classes, built by seeded stub matching
    (harness-side; colliding placements are dropped, joint degrees are recomputed from what was placed)."""
    import random as _r
    R = _r.Random(seed)
    want = [classes[v % len(classes)] for v in range(N)]
    topos = [{"kind": "clique", "size": 2, "name": "2-clique"}, {"kind": "clique", "size": 3, "name": "3-clique"}]
    used = set()
    motifs = []
    for ti, t in enumerate(topos):
        stubs = [v for v in range(N) for _ in range(want[v][ti])]
        R.shuffle(stubs)
        s = t["size"]
        for i in range(0, len(stubs) - s + 1, s):
            vs = stubs[i:i + s]
            if len(set(vs)) < s:
                continue
            es = {frozenset(e) for e in NC.motif_edges("clique", vs)}
            if es & used:
                continue
            used |= es
            motifs.append([ti, vs])
    return {"N": N, "topos": topos, "motifs": motifs}
