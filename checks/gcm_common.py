"""Shared generators / drivers for the GCM generator properties (C01, C02, C03, C04).

A case is plain JSON:
  {"algo": "fast"|"network"|"motifs", "path": "class"|"factory"|"main_enum"|"main_str",
   "N": int, "jds": [[int]*ncols]*N,
   "motifs": [ {"kind": "clique"|"cycle"|"diamond"|"template", "m": positions, "edges": [[i,j],..],
                "ret": "list"|"tuple"|"bare", "names": [str..] | str,
                "cols": [column index per orbit], "orbit_sizes": [int per orbit]} ],
   "rng": {"mode": "seed", "seed": int} | {"mode": "script", "ints": [int..], "tail": int}}
For fast/network every motif has exactly one orbit and cols == [k] for motif k (column k).
"""
import copy
from itertools import combinations

from hypothesis import strategies as st

from vlib import rng
from vlib.runner import call, Violation, clone_point


# --------------------------------------------------------------------------- templates
def template_edges(motif):
    k, m = motif["kind"], motif["m"]
    if k == "clique":
        return [list(p) for p in combinations(range(m), 2)]
    if k == "cycle":
        return [[i, i + 1] for i in range(m - 1)] + [[0, m - 1]]
    if k == "diamond":
        return [[0, 1], [1, 2], [2, 3], [0, 3], [0, 2], [1, 3]]
    return [list(e) for e in motif["edges"]]


def builtin_or_template(motif):
    """the callable the library is configured with (before journalling)."""
    from gcmpy import clique_motif, cycle_motif, diamond_motif
    kind = motif["kind"]
    if kind == "clique":
        return clique_motif
    if kind == "cycle":
        return cycle_motif
    if kind == "diamond":
        return diamond_motif
    edges = [tuple(e) for e in motif["edges"]]
    ret = motif["ret"]

    as_list = motif.get("etype") == "list"

    drop_loops = bool(motif.get("drop_loops"))
    buf = []  # reuse_buffer: the callback fills and returns one and the same list object on every call

    def template(vs):
        es = [[vs[i], vs[j]] if as_list else (vs[i], vs[j]) for i, j in edges
              if not (drop_loops and vs[i] == vs[j])]
        if ret == "bare":
            if motif.get("return_argument") and len(vs) == 2 and tuple(edges[0]) == (0, 1):
                return vs  # the callback hands back the very list it was given (a legal bare edge [u, v])
            return es[0]
        if ret == "tuple":
            return tuple(es)
        if motif.get("reuse_buffer"):
            del buf[:]
            buf.extend(es)
            return buf
        return es
    return template


def expected_rows(motif, vs):
    """edge rows this motif instance must contribute, as [(u,v)], oracle side."""
    return [(vs[i], vs[j]) for i, j in template_edges(motif)
            if not (motif.get("drop_loops") and vs[i] == vs[j])]


def expected_names(motif):
    n = motif["names"]
    ne = len(template_edges(motif))
    if not isinstance(n, (list, tuple)):
        return [n] * ne  # one (scalar) name for the whole topology
    return list(n)


# --------------------------------------------------------------------------- strategies
NAME_POOL = ["2-clique", "3-clique", "tri", "sq", "x", "diamond-outer", "diamond-inner", "p01", "a-b", "", "τ"]


@st.composite
def motif_shape(draw, custom, allow_size1=True):
    kind = draw(st.sampled_from(["clique", "clique", "cycle", "diamond", "template", "template", "template"]))
    if kind == "clique":
        m = draw(st.integers(1 if allow_size1 else 2, 5))
        return {"kind": kind, "m": m, "edges": [], "ret": "list"}
    if kind == "cycle":
        return {"kind": kind, "m": draw(st.integers(3, 6)), "edges": [], "ret": "list"}
    if kind == "diamond":
        return {"kind": kind, "m": 4, "edges": [], "ret": "list"}
    m = draw(st.integers(2, 5))
    pairs = [list(p) for p in combinations(range(m), 2)]
    ne = draw(st.sampled_from([1, 1, 2, 2, 3, len(pairs)]))
    ne = max(1, min(ne, len(pairs)))
    edges = draw(st.lists(st.sampled_from(pairs), min_size=ne, max_size=ne, unique_by=tuple))
    # every position should be used by some edge?  not required: unused positions still consume stubs
    extra = {}
    if custom and ne == 1 and draw(st.booleans()):
        ret = "bare"
        if m == 2 and draw(st.booleans()):
            extra["return_argument"] = True
    else:
        ret = draw(st.sampled_from(["list", "tuple"]))
        if ret == "list" and draw(st.integers(0, 3)) == 0:
            extra["reuse_buffer"] = True
    return {**extra, "kind": "template", "m": m, "edges": edges, "ret": ret,
            # edges written as lists instead of tuples: only the custom generator (pure edge-list output)
            "etype": draw(st.sampled_from(["tuple", "tuple", "list"])) if custom else "tuple"}


@st.composite
def gcm_case(draw, tier, algos=("fast", "network", "motifs"), max_leaf_stubs=None, rng_modes=("seed", "script")):
    big = tier == "thorough"
    algo = draw(st.sampled_from(list(algos)))
    path = draw(st.sampled_from(["class", "class", "factory", "main_enum", "main_str"]))
    N = draw(st.integers(1, 40 if big else 12))
    nm = draw(st.integers(1, 4))
    motifs = []
    col = 0
    counts = []
    for j in range(nm):
        mo = draw(motif_shape(custom=(algo == "motifs")))
        m = mo["m"]
        if algo == "motifs":
            # split the m positions into 1..3 consecutive orbits
            no = draw(st.integers(1, min(3, m)))
            cuts = sorted(draw(st.lists(st.integers(1, m - 1), min_size=no - 1, max_size=no - 1, unique=True))) if no > 1 else []
            bounds = [0] + cuts + [m]
            sizes = [bounds[i + 1] - bounds[i] for i in range(len(bounds) - 1)]
        else:
            sizes = [m]
        mo["orbit_sizes"] = sizes
        mo["cols"] = list(range(col, col + len(sizes)))
        col += len(sizes)
        ne = len(template_edges(mo))
        if algo == "motifs":
            if mo["ret"] == "bare":
                mo["names"] = draw(st.sampled_from(NAME_POOL))
            elif draw(st.booleans()):
                mo["names"] = [draw(st.sampled_from(NAME_POOL)) for _ in range(ne)]
                mo["names_iter"] = draw(st.booleans())
            else:
                mo["names"] = [f"m{j}"] * ne
                mo["names_iter"] = draw(st.booleans())
        else:
            mo["names"] = draw(st.sampled_from([f"t{j}", f"t{j}", NAME_POOL[j % len(NAME_POOL)] + f"#{j}"]))
            if j == 0 and draw(st.integers(0, 5)) == 5:
                mo["names"] = draw(st.sampled_from(["", 0]))  # a topology label may be any value, falsy ones included
            if j >= 1 and draw(st.integers(0, 4)) == 0:
                # names are labels, nothing makes them distinct: this topology is called like the first one
                mo["names"] = motifs[0]["names"]
            if mo["kind"] == "template" and draw(st.integers(0, 3)) == 3:
                # a callback that omits degenerate (u,u) edges: its edge count varies from instance to instance
                mo["drop_loops"] = True
        cap = max(0, (10 if not big else 24) // max(1, m))
        if max_leaf_stubs is not None:
            cap = max(0, max_leaf_stubs // max(1, max(sizes)))
        counts.append(draw(st.integers(0, cap)))
        motifs.append(mo)
    ncols = col
    if algo == "motifs" and draw(st.booleans()):
        # permute the columns so that motif_indices is an arbitrary partition of the columns
        perm = draw(st.permutations(list(range(ncols))))
        for mo in motifs:
            mo["cols"] = [perm[c] for c in mo["cols"]]
    jds = [[0] * ncols for _ in range(N)]
    # restrict stubs to a subset of the vertices now and then, so zero-degree vertices are common
    lo = draw(st.integers(0, N - 1))
    hi = draw(st.integers(lo, N - 1))
    if draw(st.booleans()):
        lo, hi = 0, N - 1
    for mo, cnt in zip(motifs, counts):
        for c, s in zip(mo["cols"], mo["orbit_sizes"]):
            for v in draw(st.lists(st.integers(lo, hi), min_size=cnt * s, max_size=cnt * s)):
                jds[v][c] += 1
    mode = draw(st.sampled_from(list(rng_modes)))
    if mode == "seed":
        r = {"mode": "seed", "seed": draw(st.integers(0, 2 ** 32 - 1))}
    else:
        r = {"mode": "script", "ints": draw(st.lists(st.integers(0, 50), max_size=40)),
             "tail": draw(st.integers(0, 1000))}
    c = {"algo": algo, "path": path, "N": N, "jds": jds, "motifs": motifs, "rng": r}
    if draw(st.integers(0, 3)) == 0:
        # the same generator object was already used for an earlier graph
        c["prior"] = draw(st.sampled_from(["same", "reversed", "doubled"]))
    if algo == "motifs":
        c["indices_type"] = draw(st.sampled_from(["list", "list", "tuple", "range"]))
    if draw(st.integers(0, 5)) == 5:
        c["callable_objects"] = True
    if draw(st.integers(0, 7)) == 7:
        c["reentrant"] = True
    if draw(st.integers(0, 3)) == 0:
        # the caller re-uses its parameter dictionary for something else after the generator was constructed
        c["params_reassigned"] = True
    return c


# --------------------------------------------------------------------------- driver
def ncols(case):
    return len(case["jds"][0]) if case["jds"] else sum(len(m["cols"]) for m in case["motifs"])


def motif_sizes(case):
    sizes = [None] * ncols(case)
    for mo in case["motifs"]:
        for c, s in zip(mo["cols"], mo["orbit_sizes"]):
            sizes[c] = s
    return sizes


def build(case, journal):
    """Construct the generator object for the case through the requested path.
    journal receives (motif index, [vertices], returned value) per callback call."""
    from gcmpy import (GCMAlgorithmNames as GN, GCMAlgorithmFast, GCMAlgorithmNetwork, GCMAlgorithmCustomMotifs,
                       GCMAlgorithmFactory, GCMAlgorithmMain, GCMAlgorithmTypes)
    algo = case["algo"]

    holder = {"g": None, "busy": False}

    class CallableBuilder:
        """a build callback may be any callable: an object with __call__ (and state of its own), not only a function"""
        def __init__(self, f):
            self.f = f
            self.calls = 0

        def __call__(self, vertices):
            self.calls += 1
            return self.f(vertices)

    def wrap(j, fn):
        def cb(vertices):
            if case.get("reentrant") and j == 0 and holder["g"] is not None and not holder["busy"]:
                # the callback itself asks the same generator object for another (empty) graph before it answers
                holder["busy"] = True
                try:
                    holder["g"].random_clustered_graph([tuple([0] * ncols(case))])
                finally:
                    holder["busy"] = False
                    del journal[len(journal):]
            # the library's own list object is passed through (a callback may legitimately return it); the
            # journal keeps snapshots taken at call time, so later reuse of that object by the library shows
            es = fn(vertices)
            if isinstance(es, list) and (not es or isinstance(es[0], tuple)):
                snap = list(es)  # tuples of ints are immutable: a shallow copy is a faithful snapshot
            else:
                snap = copy.deepcopy(es)
            journal.append((j, list(vertices), snap))
            return es
        if case.get("callable_objects"):
            b = CallableBuilder(cb)
            _BUILDERS.setdefault(id(journal), []).append((j, b))
            return b
        return cb

    params = {}
    params[GN.MOTIF_SIZES] = motif_sizes(case)
    params[GN.BUILD_FUNCTIONS] = [wrap(j, builtin_or_template(mo)) for j, mo in enumerate(case["motifs"])]
    if algo == "motifs":
        def namer(mo):
            names = mo["names"]
            ret = tuple(names) if isinstance(names, (list, tuple)) else names
            if mo.get("names_iter") and isinstance(names, (list, tuple)):
                return lambda: iter(ret)  # a naming callback may yield its names (one-shot iterable)
            return lambda: ret
        params[GN.EDGE_NAMES] = [namer(mo) for mo in case["motifs"]]
        # an entry of motif_indices is a sequence of column numbers: a list, or any other sequence (tuple, range)
        def indices(cols):
            t = case.get("indices_type", "list")
            if t == "range" and len(cols) >= 1 and list(cols) == list(range(cols[0], cols[0] + len(cols))):
                return range(cols[0], cols[0] + len(cols))
            return tuple(cols) if t in ("tuple", "range") else list(cols)
        params[GN.MOTIF_INDICES] = [indices(mo["cols"]) for mo in case["motifs"]]
    else:
        params[GN.EDGE_NAMES] = [mo["names"] for mo in case["motifs"]]
    typ = {"fast": GCMAlgorithmTypes.FAST, "network": GCMAlgorithmTypes.NETWORK,
           "motifs": GCMAlgorithmTypes.MOTIFS}[algo]
    cls = {"fast": GCMAlgorithmFast, "network": GCMAlgorithmNetwork, "motifs": GCMAlgorithmCustomMotifs}[algo]
    path = case["path"]
    if path == "class":
        g = call("construct", cls, params)
    elif path == "factory":
        g = call("construct-factory", GCMAlgorithmFactory.resolve_algorithm, typ, params)
    else:
        params[GN.GCM_TYPE] = typ if path == "main_enum" else typ.value
        g = call("construct-main", GCMAlgorithmMain.load_gcm_algorithm, params)
    # the caller may go on with a copy of the generator object (plain-function callbacks are shared by copies)
    g = clone_point(g, case)
    holder["g"] = g
    if case.get("params_reassigned"):
        # the generator is configured at construction: what the caller later stores under the same keys of its own
        # dictionary (here: other sizes, other callbacks, other names) configures nothing
        def foreign(vertices):
            raise Violation("params-reread", "the generator invoked a build callback that was stored in the caller's "
                                             "parameter dictionary after the generator had been constructed")
        n = len(case["motifs"])
        params[GN.MOTIF_SIZES] = [s + 1 for s in motif_sizes(case)]
        params[GN.BUILD_FUNCTIONS] = [foreign] * n
        params[GN.EDGE_NAMES] = [(lambda: ["foreign"] * 8) if algo == "motifs" else "foreign"] * n
        if algo == "motifs":
            params[GN.MOTIF_INDICES] = [[0]] * n
    return g, cls


_BUILDERS = {}  # id(journal) -> [(motif index, CallableBuilder)] of the generator under construction


def rng_ctx(r, budget=None, record_bounds=False):
    if r["mode"] == "seed":
        return rng.seeded(r["seed"])
    return rng.scripted(ints=r["ints"], tail_seed=r.get("tail", 0), budget=budget, record_bounds=record_bounds)


def generate(case):
    """Run the generator; returns (result, journal, jds passed in (tuples), pristine copy)."""
    journal = []
    g, cls = build(case, journal)
    jds = [tuple(r) for r in case["jds"]]
    pristine = copy.deepcopy(jds)
    arg = jds
    if case.get("np_dtype"):
        import numpy as np
        arg = np.array(case["jds"], dtype=getattr(np, case["np_dtype"]))
    with rng_ctx(case["rng"]):
        prior = case.get("prior")
        if prior:
            pj = {"same": list(jds), "reversed": list(reversed(jds)), "doubled": list(jds) + list(jds)}[prior]
            call("generate-earlier-graph", g.random_clustered_graph, pj)
            del journal[:]
        builders = _BUILDERS.pop(id(journal), [])
        before = [b.calls for _, b in builders]
        res = call("generate", g.random_clustered_graph, arg)
        # the callable objects that were configured are the ones that are called (not copies of them)
        for (j, b), c0 in zip(builders, before):
            used = sum(1 for jj, _, _ in journal if jj == j)
            if b.calls - c0 != used:
                raise Violation("callback-object-replaced", f"build callback object of motif {j} was called {b.calls - c0} times, "
                                                            f"{used} motif instances of that kind were built (by a copy of the object)")
    # ... and the result may be copied or pickled before it is looked at (returned from a worker process, cached)
    res = clone_point(res, case)
    if case.get("np_dtype"):
        if [tuple(int(x) for x in r) for r in arg.tolist()] != pristine:
            jds = [("modified",)]
        # normalise what the result carries to plain ints for the comparisons
        if hasattr(res, "joint_degrees"):
            try:
                res.joint_degrees = [tuple(int(x) for x in r) for r in res.joint_degrees]
            except Exception:
                pass
    return g, cls, res, journal, jds, pristine


def classes_of(case):
    cl = set()
    jds = case["jds"]
    if any(not any(r) for r in jds):
        cl.add("zero_degree_vertex")
    if jds and any(not any(c) for c in zip(*jds)):
        cl.add("all_zero_column")
    if len(case["motifs"]) >= 3:
        cl.add("ge3_motifs")
    if any(len(m["cols"]) > 1 for m in case["motifs"]):
        cl.add("multi_orbit")
    if case["rng"]["mode"] == "script":
        cl.add("scripted_rng")
    if case.get("prior"):
        cl.add("generator_reused")
    if case.get("params_reassigned"):
        cl.add("params_dict_reassigned_after_construction")
    if case.get("callable_objects"):
        cl.add("callbacks_are_callable_objects")
    if case.get("reentrant"):
        cl.add("reentrant_callback")
    if case.get("indices_type", "list") != "list":
        cl.add("motif_indices_as_" + case["indices_type"])
    cl.add("algo_" + case["algo"])
    cl.add("path_" + case["path"])
    for m in case["motifs"]:
        ne = len(template_edges(m))
        if m.get("ret") == "bare":
            cl.add("bare_edge_motif")
        elif ne == 1:
            cl.add("one_edge_motif")
        elif ne == 2:
            cl.add("two_edge_motif")
        elif ne >= 3:
            cl.add("ge3_edge_motif")
        if ne == 0:
            cl.add("zero_edge_motif")
        if m.get("etype") == "list":
            cl.add("edges_as_lists")
        if m.get("drop_loops"):
            cl.add("variable_edge_count_callback")
        if m.get("return_argument"):
            cl.add("bare_edge_is_the_argument_list")
        if m.get("reuse_buffer"):
            cl.add("callback_returns_one_reused_list")
        if m.get("names_iter"):
            cl.add("names_from_one_shot_iterator")
        if isinstance(m["names"], (list, tuple)) and len(set(m["names"])) > 1:
            cl.add("heterogeneous_names")
    tn = [repr(m["names"]) for m in case["motifs"] if not isinstance(m["names"], (list, tuple))]
    if len(set(tn)) < len(tn):
        cl.add("two_topologies_share_a_name")
    return cl


def instances(case):
    """number of motif instances requested, per motif."""
    out = []
    jds = case["jds"]
    for mo in case["motifs"]:
        c, s = mo["cols"][0], mo["orbit_sizes"][0]
        out.append(sum(r[c] for r in jds) // s)
    return out
