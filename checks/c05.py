"""C05 -- sampled joint degree sequences are handshake-consistent minimal perturbations."""
from hypothesis import strategies as st

from vlib import rng, stats
from vlib.runner import Violation, call, clone_point

PID = "C05"
RULE = ("Hypothesis-generated (distribution with 1..6 keys over 1..4 topologies, dense or sparse key sets, weights "
        "normalised or raw ints/floats; motif sizes 1..5; N in 1..60; RNG seed) sampled through JointDegreeManual."
        "sample_jds_from_jdd; plus seeded chi-square tests of the key frequencies on N=20000 draws. Plus one sample of 2**20+3 vertices. Plus the sampling method of marginal (direct mode) and empirical loaders. Non-trivial = at "
        "least one column of the raw draw was not divisible by its motif size (a perturbation was required); "
        "distinct = distinct canonical JSON")
ASSUMPTIONS = ["the raw weighted draw is observed passively through random.choices when the implementation uses it "
               "(one call with k=N); otherwise an existence-of-decomposition predicate is used",
               "weights: chi-square at p<1e-9 on 20000 draws, entries that are not keys (<= sum(size-1) of them) ignored"]
BUDGET = {"quick": (16, 300), "thorough": (16, 15000)}


@st.composite
def dist_case(draw, tier):
    T = draw(st.integers(1, 4))
    sparse = draw(st.booleans())
    nk = draw(st.integers(1, 6))
    if sparse:
        # keys on a lattice of spacing 3 (+ offset) so that a perturbed entry can not coincide with another key
        cells = draw(st.lists(st.tuples(*[st.integers(0, 2)] * T), min_size=1, max_size=nk, unique=True))
        off = [draw(st.integers(0, 1)) for _ in range(T)]
        keys = [[3 * c + o for c, o in zip(cell, off)] for cell in cells]
    else:
        keys = [list(k) for k in draw(st.lists(st.tuples(*[st.integers(0, 6)] * T), min_size=1, max_size=nk, unique=True))]
    wkind = draw(st.sampled_from(["norm", "int", "float"]))
    if wkind == "int":
        w = [draw(st.integers(1, 9)) for _ in keys]
    else:
        w = [draw(st.floats(0.05, 5.0, allow_nan=False)) for _ in keys]
        if wkind == "norm":
            s = sum(w)
            w = [x / s for x in w]
    sizes = [draw(st.integers(1, 5)) for _ in range(T)]
    N = draw(st.sampled_from([1, 2, 3, 5, 8, 13, 30, 60]) if tier == "quick" else st.integers(1, 200))
    c = {"keys": keys, "weights": w, "sizes": sizes, "N": N, "seed": draw(st.integers(0, 2 ** 32 - 1))}
    # joint degrees taken from NumPy arrays (signed or unsigned scalars) are ordinary input as well
    c["key_dtype"] = draw(st.sampled_from(["int", "int", "int", "int64", "uint32", "uint64"]))
    if c["key_dtype"] == "int" and draw(st.integers(0, 9)) == 9:
        # astronomically large degrees are still integers: totals beyond 2**53 must be patched exactly
        i = draw(st.integers(0, len(keys) - 1))
        j = draw(st.integers(0, T - 1))
        keys[i][j] = 2 ** 53 + draw(st.integers(0, 40))
        c["huge"] = True
        c["N"] = draw(st.sampled_from([1, 2, 3, 11]))
    if draw(st.integers(0, 3)) == 0:
        # history on one loader object: sample, replace the distribution, sample again
        k2 = [list(k) for k in draw(st.lists(st.tuples(*[st.integers(0, 6)] * T), min_size=1, max_size=4, unique=True))]
        c["then"] = {"route": draw(st.sampled_from(["setter", "inplace", "convert", "empirical_reload"])),
                     "keys": k2, "weights": [draw(st.integers(1, 9)) for _ in k2], "N": draw(st.sampled_from([1, 4, 20]))}
        if draw(st.booleans()):
            # ... and the motif sizes are re-configured through the public setter (any order, the vector is positional)
            c["then"]["sizes"] = [draw(st.integers(1, 5)) for _ in range(T)]
    return c


def strategy(tier):
    return dist_case(tier)


def enumerated(tier, seed):
    out = []
    dists = [
        ([[1, 0], [0, 1], [2, 2], [5, 3]], [1, 2, 3, 4], [2, 3]),
        ([[0], [3], [6]], [0.7, 0.2, 0.1], [3]),
        ([[1, 1, 1], [4, 4, 4], [7, 1, 4]], [5.0, 0.5, 2.5], [2, 1, 4]),
        ([[2, 0], [0, 2]], [0.35, 0.65], [2, 2]),
        # un-normalised weights on a tiny scale (any positive weights are legal): ratios are what matters
        ([[1], [2], [3]], [1e-16, 3e-16, 6e-16], [2]),
        ([[1, 1], [0, 3]], [2e-300, 6e-300], [2, 3]),
    ]
    n = 20000 if tier == "quick" else 100000
    for i, (k, w, s) in enumerate(dists):
        out.append({"stat": True, "keys": k, "weights": w, "sizes": s, "N": n, "seed": seed * 100 + i})
    # the sampling method of other loaders: marginal (direct mode; tight bounds, so that the marginals carry real
    # mass at both ends of their ranges) and empirical
    for i, (bounds, sizes_) in enumerate([([[0, 4], [0, 3]], [2, 3]), ([[1, 3]], [2]), ([[0, 2], [1, 4]], [3, 2])]):
        out.append({"via": "marginal", "bounds": bounds, "mseed": seed * 10 + i, "sizes": sizes_, "N": 4000, "seed": seed * 100 + 80 + i})
    out.append({"via": "empirical", "jds": [[1, 0], [1, 0], [2, 1], [0, 3], [0, 3], [0, 3]], "sizes": [2, 3], "N": 4000, "seed": seed * 100 + 85})
    # more than a million vertices (every block size / chunked pass up to 2**20 is crossed); the totals N of both
    # columns leave remainders modulo 2 and 3
    out.append({"keys": [[1, 1]], "weights": [1.0], "sizes": [2, 3], "N": 2 ** 20 + 3, "seed": seed * 100 + 50, "many": True})
    return out


def loader(case):
    from gcmpy import JointDegreeManual, JointDegreeNames as JN
    dt = case.get("key_dtype", "int")
    if dt == "int":
        conv = int
    else:
        import numpy as np
        conv = getattr(np, dt)
    jdd = {tuple(conv(x) for x in k): w for k, w in zip(case["keys"], case["weights"])}
    return clone_point(call("construct", JointDegreeManual, {JN.JDD: jdd, JN.MOTIF_SIZES: list(case["sizes"])}), case), jdd


def exists_decomposition(out, keys, sizes):
    """is there an assignment key <= entry for every non-key entry with per-column excess < size?"""
    keyset = set(keys)
    rest = [e for e in out if e not in keyset]
    T = len(sizes)
    if len(rest) > sum(s - 1 for s in sizes):
        return False

    def rec(i, excess):
        if i == len(rest):
            return True
        e = rest[i]
        for k in keys:
            if all(a <= b for a, b in zip(k, e)):
                ne = [x + b - a for x, a, b in zip(excess, k, e)]
                if all(x < s for x, s in zip(ne, sizes)) and rec(i + 1, ne):
                    return True
        return False
    return rec(0, [0] * T)


def other_loader_check(case):
    """keys drawn through the loader's own sample_jds_from_jdd are keys of the distribution it exposes (up to the
    handshake perturbation) and follow its weights"""
    from gcmpy import JointDegreeEmpirical, JointDegreeMarginal, JointDegreeNames as JN
    from checks.c06 import positive
    sizes = list(case["sizes"])
    if case["via"] == "marginal":
        fps = [(lambda d, s=case["mseed"] + 17 * i: positive(s, int(d))) for i in range(len(sizes))]
        ld = call("construct", JointDegreeMarginal, {JN.ARR_FP: fps, JN.LOW_HIGH_DEGREE_BOUND: [tuple(b) for b in case["bounds"]],
                                                     JN.MOTIF_SIZES: sizes})
    else:
        ld = call("construct", JointDegreeEmpirical, {JN.JDS: [tuple(r) for r in case["jds"]], JN.MOTIF_SIZES: sizes})
    ld = clone_point(ld, case)
    jdd = {tuple(int(x) for x in k): float(v) for k, v in ld.jdd.items() if v > 0}
    N = case["N"]
    with rng.seeded(case["seed"]):
        out = call("sample", ld.sample_jds_from_jdd, N)
    if not isinstance(out, list) or len(out) != N:
        raise Violation("length", f"sampled {len(out) if hasattr(out, '__len__') else out!r} joint degrees, asked for {N}")
    out = [tuple(int(x) for x in e) for e in out]
    cols = [sum(c) for c in zip(*out)]
    if any(c % s for c, s in zip(cols, sizes)):
        raise Violation("handshake", f"column sums {cols} not divisible by motif sizes {sizes}")
    foreign = [e for e in out if e not in jdd]
    if len(foreign) > sum(s - 1 for s in sizes):
        raise Violation("too-many-perturbed", f"{len(foreign)} of {N} sampled entries are not keys of the {case['via']} loader's "
                                              f"distribution, e.g. {foreign[:3]} (keys {sorted(jdd)[:8]}...)")
    keys = sorted(jdd)
    W = sum(jdd.values())
    obs = [sum(1 for e in out if e == k) for k in keys]
    tot = sum(obs)
    s_, df, p = stats.chi2_test(obs, [tot * jdd[k] / W for k in keys])
    if p < stats.ALPHA:
        raise Violation("weights", f"{case['via']} loader: keys not drawn in proportion to their weights: chi2={s_:.1f} df={df} p={p:.3g}")
    return {"nontrivial": True, "classes": ["statistical", "via_" + case["via"] + "_loader"], "notes": {"p_weights_" + case["via"]: p}}


def check(case):
    from gcmpy import JointDegreeEmpirical, JointDegreeNames as JN
    if case.get("via"):
        return other_loader_check(case)
    ld, jdd = loader(case)
    sizes = case["sizes"]
    if case.get("stat"):
        return verify(ld, jdd, sizes, case["N"], case["seed"], stat=True, case=case)
    info = verify(ld, jdd, sizes, case["N"], case["seed"], flags=case)
    th = case.get("then")
    if th:
        new = {}
        for k, w in zip(th["keys"], th["weights"]):
            new[tuple(k)] = w
        route = th["route"]
        if route == "setter":
            ld.jdd = dict(new)
        elif route == "inplace":
            for k in list(ld.jdd):
                del ld.jdd[k]
            ld.jdd.update(new)
        elif route == "convert":
            seq = [k for k, w in new.items() for _ in range(w)]
            call("convert_jds_to_jdd", ld.convert_jds_to_jdd, seq)
            new = {k: w / len(seq) for k, w in new.items()}
        else:
            seq = [k for k, w in new.items() for _ in range(w)]
            ld = call("construct-empirical", JointDegreeEmpirical, {JN.JDS: list(jdd.keys()), JN.MOTIF_SIZES: list(sizes)})
            with rng.seeded(case["seed"]):
                call("sample", ld.sample_jds_from_jdd, 3)
            ld.empirical_jds = seq
            call("create_jdd", ld.create_jdd)
            new = {k: w / len(seq) for k, w in new.items()}
        got_d = {tuple(k): float(v) for k, v in ld.jdd.items()}
        if set(got_d) != set(new) or any(abs(got_d[k] - float(new[k])) > 1e-9 * max(1.0, abs(float(new[k]))) for k in new):
            raise Violation("distribution-replacement", f"after replacing the distribution through '{route}' the loader holds "
                                                        f"{got_d}, expected {new}")
        if th.get("sizes"):
            ld.motif_sizes = list(th["sizes"])
            sizes = list(th["sizes"])
        info2 = verify(ld, new, sizes, th["N"], case["seed"] + 1, tag="after-replacing-distribution:")
        if th.get("sizes"):
            info["classes"] = sorted(set(info["classes"]) | {"motif_sizes_through_setter"})
        info["classes"] = sorted(set(info["classes"]) | {"history_" + route})
        info["nontrivial"] = info["nontrivial"] or info2["nontrivial"]
    return info


def verify(ld, jdd, sizes, N, seed, stat=False, case=None, tag="", flags=None):
    from gcmpy import JointDegreeEmpirical, JointDegreeNames as JN, GCMAlgorithmFast, GCMAlgorithmNames as GN, clique_motif
    keys = list(jdd.keys())
    T = len(sizes)
    case = case or {"weights": list(jdd.values()), "keys": [list(k) for k in keys], "sizes": sizes, "seed": seed}
    if flags:
        case = {**case, "huge": flags.get("huge"), "many": flags.get("many"), "key_dtype": flags.get("key_dtype", "int")}
    with rng.seeded(seed), rng.spy_choices() as calls:
        out = call(tag + "sample", ld.sample_jds_from_jdd, N)
    if stat:
        cnt = {k: 0 for k in keys}
        for e in out:
            if tuple(e) in cnt:
                cnt[tuple(e)] += 1
        tot = sum(cnt.values())
        if tot < N - sum(s - 1 for s in sizes):
            raise Violation(tag + "too-many-perturbed", f"{N - tot} entries are not keys of the distribution")
        W = sum(case["weights"])
        obs = [cnt[tuple(k)] for k in case["keys"]]
        exp = [tot * w / W for w in case["weights"]]
        s, df, p = stats.chi2_test(obs, exp)
        if p < stats.ALPHA:
            raise Violation(tag + "weights", f"keys not drawn in proportion to their weights: observed {obs}, expected "
                                       f"{[round(x, 1) for x in exp]}, chi2={s:.1f} df={df} p={p:.3g}")
        return {"nontrivial": True, "classes": ["statistical"], "notes": {"p_weights": p}}
    if not isinstance(out, list) or len(out) != N:
        raise Violation(tag + "length", f"sampled {len(out) if hasattr(out, '__len__') else out!r} joint degrees, asked for {N}")
    for e in out:
        if not isinstance(e, tuple):
            raise Violation(tag + "entry-not-tuple", f"entry {e!r} is a {type(e).__name__}, not a joint degree tuple "
                                               f"(unhashable / unusable as a joint degree); sequence {out}")
        import numbers
        if len(e) != T or not all(isinstance(x, numbers.Integral) and not isinstance(x, bool) and x >= 0 for x in e):
            raise Violation(tag + "entry-malformed", f"entry {e!r} is not {T} non-negative ints")
    out_raw = out
    out = [tuple(int(x) for x in e) for e in out]
    keys = [tuple(int(x) for x in k) for k in keys]
    cols = [sum(c) for c in zip(*out)]
    for c, s in zip(cols, sizes):
        if c % s:
            raise Violation(tag + "handshake", f"column sums {cols} not divisible by motif sizes {sizes}")
    classes = set()
    raw = None
    def as_keys(pop):
        try:
            return [tuple(int(y) for y in x) for x in pop]
        except TypeError:
            return None  # some other use of random.choices (e.g. choosing vertices)
    big = [c for c in calls if c["k"] == N and as_keys(c["population"]) == keys]
    if len(big) == 1 and len(calls) == 1:
        raw = [tuple(int(y) for y in x) for x in big[0]["result"]]
        classes.add("spied_raw_draw")
        diffs = [[a - b for a, b in zip(o, r)] for o, r in zip(out, raw)]
        if any(d < 0 for row in diffs for d in row):
            raise Violation(tag + "stub-removed", f"a stub was removed: raw {raw} -> {out}")
        added = [sum(c) for c in zip(*diffs)]
        need = [(-sum(c)) % s for c, s in zip(zip(*raw), sizes)]
        if added != need:
            raise Violation(tag + "not-minimal", f"stubs added per topology {added}, fewest that achieve divisibility {need}; "
                                           f"raw {raw} -> {out}, sizes {sizes}")
        nt = any(need)
    else:
        classes.add("existence_predicate")
        if not exists_decomposition(out, keys, sizes):
            raise Violation(tag + "not-minimal-perturbation", f"{out} is not N draws of {keys} plus < size added stubs per topology (sizes {sizes})")
        nt = any(e not in set(keys) for e in out)
    if case.get("many"):
        classes.add("million_vertices")
        return {"nontrivial": bool(nt), "classes": sorted(classes)}
    if case.get("huge"):
        classes.add("huge_degrees")
        if nt:
            classes.add("perturbed")
        return {"nontrivial": bool(nt), "classes": sorted(classes)}
    # usable wherever a joint degree sequence is accepted
    emp = call(tag + "usable-empirical", JointDegreeEmpirical, {JN.JDS: list(out_raw), JN.MOTIF_SIZES: list(sizes)})
    if abs(sum(emp.jdd.values()) - 1) > 1e-9:
        raise Violation(tag + "usable-empirical", "empirical loader of the sampled sequence does not sum to 1")
    gen = GCMAlgorithmFast({GN.MOTIF_SIZES: list(sizes), GN.BUILD_FUNCTIONS: [clique_motif] * T,
                            GN.EDGE_NAMES: [f"t{i}" for i in range(T)]})
    with rng.seeded(case["seed"]):
        el = call(tag + "usable-generator", gen.random_clustered_graph, list(out))
    want_edges = sum(c // s * (s * (s - 1) // 2) for c, s in zip(cols, sizes))
    if len(el.edge_list) != want_edges:
        raise Violation(tag + "usable-generator", f"generator produced {len(el.edge_list)} edges from the sampled sequence, expected {want_edges}")
    if case.get("key_dtype", "int") != "int":
        classes.add("numpy_keys_" + case["key_dtype"])
    if 1 in sizes:
        classes.add("size_1_topology")
    if abs(sum(case["weights"]) - 1) > 1e-9:
        classes.add("unnormalised_weights")
    if any(N < s for s in sizes):
        classes.add("N_lt_size")
    if nt:
        classes.add("perturbed")
    return {"nontrivial": bool(nt), "classes": sorted(classes)}
