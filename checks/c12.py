"""C12 -- MCMC rewiring only creates pairings the target allows and approaches it."""
from vlib.runner import Violation
from checks import mcmc_common as M
from checks import net_common as NC

PID = "C12"
RULE = ("(hard rule) Hypothesis-generated clean motif networks as in C11 with symmetric targets from which a generated "
        "subset of unordered excess-class pairings (never one used by an existing edge) is removed (key absent) or "
        "zeroed, all limits, RNG seeded or scripted, draw budget: every edge created during the run (journal) or "
        "present only in the output must have positive target weight for its end points' excess pair in that "
        "topology. (approach) enumerated seeded configuration-style networks (N=100 quick / 300 thorough, 2- and "
        "3-cliques over three joint-degree classes), assortative-mixture and (every other case) disassortative targets with lambda in [0.5,0.8], "
        "CONVERGENCE_LIMIT = E (quick) / 2E: the L1 distance between the network's mixing matrices (harness-side "
        "extractor) and the target must be smaller after than before. Non-trivial = >= 1 accepted swap and >= 1 "
        "effective removed pairing (hard rule) / initial distance > 0.2 (approach); distinct = canonical JSON")
ASSUMPTIONS = ["targets are symmetric (a mixing matrix is symmetric; the acceptance rule reads one orientation)",
               "runs cut by the RNG-draw budget are inconclusive for the approach clause; their created edges are still checked",
               "both clauses are independent of motif ids, so the open C11 finding does not confound them"]
BUDGET = {"quick": (16, 100), "thorough": (16, 3000)}
SHRINK_IN_QUICK = False
ENUM_CHUNK = 1


def strategy(tier):
    return M.mcmc_case(tier, holes=True)


def enumerated(tier, seed):
    out = []
    n = 6 if tier == "quick" else 24
    N = 100 if tier == "quick" else 300
    for i in range(n):
        out.append({"approach": True, "N": N, "net_seed": seed * 1000 + i, "lambda": [0.5, 0.65, 0.8][i % 3],
                    "disassortative": i % 2 == 1,
                    "Lfactor": 1 if tier == "quick" else 2, "rng": {"mode": "seed", "seed": seed * 77 + i}})
    return out


def check(case):
    from gcmpy import NetworkNames as NN
    if case.get("approach"):
        net = M.configuration_network(case["N"], case["net_seed"])
        E = sum(len(NC.motif_edges(net["topos"][ti]["kind"], vs)) for ti, vs in net["motifs"])
        full = {"net": net, "target": {"mode": "assortative", "lambda": case["lambda"],
                                       "disassortative": bool(case.get("disassortative")),
                                       "dict_reversed": bool(case["net_seed"] % 2)}, "L": E * case["Lfactor"],
                "search": 20, "rng": case["rng"]}
        R = M.run_rewire(full)
        names = NC.names(net)
        if R.error is not None:
            raise Violation(f"raises:{type(R.error).__name__}", f"{R.where} raised {M.error_text(R)}")
        d0 = M.distance(M.mixing_matrices(R.before[1], R.jds, names), R.mats)
        final = R.out if R.out is not None else R.work
        nsw = len(M.batches(R.journal))
        if R.budget and nsw == 0 and d0 > 0.2:
            # these networks are built so that hundreds of improving swaps exist (the unchanged code accepts one every
            # few dozen draws): not a single accepted swap in the whole draw budget means the chain can not approach
            raise Violation("approach-no-progress", f"no swap accepted in the whole draw budget although the "
                                                    f"network is far from the target (distance {d0:.3f}, E={E}, lambda={case['lambda']})")
        if final is None or (R.budget and nsw < max(20, E // 10)):
            return {"nontrivial": False, "classes": ["approach", "budget_cut"], "inconclusive": True}
        # a run cut by the draw budget after at least max(20, E/10) accepted swaps is still judged on its working graph
        d1 = M.distance(M.mixing_matrices(M.snapshot(final)[1], R.jds, names), R.mats)
        if not d1 < d0:
            raise Violation("approach", f"distance to the target after rewiring {d1:.4f} is not smaller than before {d0:.4f} "
                                        f"(N={case['N']}, E={E}, lambda={case['lambda']}, swaps={len(M.batches(R.journal))})")
        return {"nontrivial": d0 > 0.2, "classes": ["approach"], "notes": {"d_after_over_d_before": d1 / d0, "d_before": d0}}
    R = M.run_rewire(case)
    net = case["net"]
    names = NC.names(net)
    # created edges: from the journal (with the topology they were given), else output minus input
    created = []
    if R.journal:
        flat = R.journal
        for i, ev in enumerate(flat):
            if ev[0] != "add":
                continue
            pair = frozenset((ev[1], ev[2]))
            top = None
            for ev2 in flat[i + 1:]:
                if ev2[0] == "remove" and frozenset((ev2[1], ev2[2])) == pair:
                    top = (ev2[3] or {}).get(NN.TOPOLOGY)
                    break
            if top is None and R.work is not None and R.work.has_edge(ev[1], ev[2]):
                top = R.work.edges[ev[1], ev[2]].get(NN.TOPOLOGY)
            created.append((ev[1], ev[2], top))
    elif R.out is not None:
        for e, d in M.snapshot(R.out)[1].items():
            if e not in R.before[1] and len(e) == 2:
                u, v = tuple(e)
                created.append((u, v, d.get(NN.TOPOLOGY)))
    for u, v, top in created:
        if top not in names:
            raise Violation("created-edge-topology", f"created edge ({u},{v}) carries topology {top!r}")
        i = names.index(top)
        a, b = list(R.jds[u]), list(R.jds[v])
        a[i] -= 1
        b[i] -= 1
        a, b = tuple(a), tuple(b)
        w1, w2 = R.mats[top].get(a + b, 0.0), R.mats[top].get(b + a, 0.0)
        if not (w1 > 0 and w2 > 0):
            raise Violation("forbidden-pairing", f"created {top} edge ({u},{v}) joins excess classes {a} and {b} whose target "
                                                 f"weight is {w1!r}/{w2!r} (pairing removed from the target: "
                                                 f"{R.holes.get((i, frozenset((a, b))), 'not listed')})")
    if R.error is not None and not (R.where == "rewire" and "already present" in str(R.error)):
        raise Violation(f"raises:{type(R.error).__name__}@{R.where}", f"{R.where} raised {M.error_text(R)}")
    swaps = len(M.batches(R.journal)) if R.journal else (1 if created else 0)
    classes = {"hard_rule"}
    if any(h == "absent" for h in R.holes.values()):
        classes.add("pairing_absent")
    if any(h == "zero" for h in R.holes.values()):
        classes.add("pairing_zeroed")
    if R.budget:
        classes.add("budget_cut")
    if case["target"].get("huge"):
        classes.add("target_weights_1e160")
    return {"nontrivial": swaps >= 1 and len(R.holes) >= 1, "classes": sorted(classes), "inconclusive": R.budget,
            "notes": {"swaps": swaps, "effective_holes": len(R.holes)}}
