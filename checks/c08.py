"""C08 -- joint degrees derived from a clique cover count cliques per vertex."""
from collections import Counter

from hypothesis import strategies as st

from vlib import rng
from vlib.runner import Violation, call, clone_point

PID = "C08"
RULE = ("Hypothesis-generated clique covers: V <= 12 (quick) / 25 vertices numbered from 0 or 1, every vertex covered, "
        "1..15 cliques with sizes from a generated size set within {1..10} (adjacent sizes, gaps of one or several, a "
        "single size), overlaps allowed; plus covers returned by EECC.get_EECC on generated graphs. Oracle: per-vertex "
        "counts per occurring size, relative-frequency table, clique-size profile identity, and sampling + generation "
        "with clique motifs of the reported sizes. Sampling is done for as many vertices as the cover has and for 1, 2 and 3 vertices. Non-trivial = >= 2 distinct clique sizes; distinct = canonical JSON")
ASSUMPTIONS = ["vertex ids are contiguous from 0 or from 1 and every vertex lies in some cover clique (the documented input)"]
BUDGET = {"quick": (16, 300), "thorough": (16, 15000)}


@st.composite
def cover_case(draw, tier):
    if draw(st.integers(0, 5)) == 0:
        # cover produced by the library's own EECC on a random graph
        n = draw(st.integers(3, 8))
        pairs = [(i, j) for i in range(n) for j in range(i + 1, n)]
        edges = draw(st.lists(st.sampled_from(pairs), min_size=2, max_size=len(pairs), unique=True))
        return {"eecc": {"edges": [list(e) for e in edges], "m0": draw(st.integers(2, 5)), "seed": draw(st.integers(0, 999))},
                "seed": draw(st.integers(0, 2 ** 31))}
    V = draw(st.integers(2, 12 if tier == "quick" else 25))
    base = draw(st.integers(0, 1))
    # 1-cliques (isolated vertices listed as singletons, as they must be to keep the numbering contiguous) are legal
    sizes = draw(st.lists(st.integers(1, min(10, V)), min_size=1, max_size=4, unique=True))
    nc = draw(st.integers(1, 15))
    cover = []
    for _ in range(nc):
        s = draw(st.sampled_from(sizes))
        cover.append(sorted(draw(st.lists(st.integers(0, V - 1), min_size=s, max_size=s, unique=True))))
    # make sure every vertex is covered: put uncovered vertices into extra cliques of an allowed size
    covered = {v for c in cover for v in c}
    missing = [v for v in range(V) if v not in covered]
    s = min(sizes)
    while missing:
        chunk = missing[:s]
        missing = missing[s:]
        fill = [v for v in range(V) if v not in chunk]
        while len(chunk) < s:
            chunk.append(fill.pop(0))
        cover.append(sorted(chunk))
    order = draw(st.permutations(list(range(len(cover)))))
    cover = [[v + base for v in cover[i]] for i in order]
    c = {"cover": cover, "seed": draw(st.integers(0, 2 ** 31)),
         "id_type": draw(st.sampled_from(["int", "int", "int64", "int32"]))}
    if draw(st.integers(0, 3)) == 0:
        # history: the loader is first built on another cover with the same clique sizes (other vertex count /
        # numbering base), then given this cover through the public setter and re-tabulated
        V0 = draw(st.integers(max(sizes), 14))
        b0 = draw(st.integers(0, 1))
        first = []
        for s_ in sizes:
            first.append(sorted(draw(st.lists(st.integers(0, V0 - 1), min_size=s_, max_size=s_, unique=True))))
        cov = {v for c_ in first for v in c_}
        miss = [v for v in range(V0) if v not in cov]
        s_ = min(sizes)
        while miss:
            chunk = miss[:s_]
            miss = miss[s_:]
            fill = [v for v in range(V0) if v not in chunk]
            while len(chunk) < s_:
                chunk.append(fill.pop(0))
            first.append(sorted(chunk))
        c["first_cover"] = [[v + b0 for v in c_] for c_ in first]
    return c


def strategy(tier):
    return cover_case(tier)


def enumerated(tier, seed):
    """statistical clause: sampling from the cover's distribution reproduces the per-vertex tuple frequencies (and so
    the clique-size profile).  Hub-first covers: distinct tuples are first met in non-ascending order."""
    covers = [
        [[0, 1], [0, 2], [0, 3], [0, 4, 5], [0, 6, 7], [1, 2, 8], [3, 9], [4, 9], [5, 10, 11]],
        [[1, 2, 3, 4], [1, 5], [1, 6], [1, 7], [2, 5, 8], [3, 6], [4, 7, 9], [8, 9], [9, 10]],
        [[0, 1, 2], [0, 3, 4], [0, 5], [1, 5], [2, 6], [3, 6], [4, 6], [6, 7]],
    ]
    n = 20000 if tier == "quick" else 100000
    out = [{"stat": True, "cover": c, "N": n, "seed": seed * 50 + i} for i, c in enumerate(covers)]
    # hub-heavy covers: one vertex lies in hundreds of cliques of one size (all triangles through vertex 0 of K_30,
    # plus a ring of edges; a 300-edge star)
    from itertools import combinations as _c
    tri = [[0, a, b] for a, b in _c(range(1, 30), 2)] + [[i, i % 29 + 1] for i in range(1, 30)]
    star = [[0, i] for i in range(1, 301)]
    out.append({"cover": tri, "seed": seed})
    out.append({"cover": [[v + 1 for v in c] for c in star], "seed": seed + 1})
    return out


def stat_check(case):
    from gcmpy import JointDegreeCover, JointDegreeNames as JN
    from vlib import stats
    cover = [list(c) for c in case["cover"]]
    ld = call("construct", JointDegreeCover, {JN.COVER: cover})
    jdd = dict(ld.jdd)
    with rng.seeded(case["seed"]):
        out = call("sample", ld.sample_jds_from_jdd, case["N"])
    cnt = Counter(tuple(x) for x in out)
    keys = list(jdd)
    tot = sum(cnt.get(k, 0) for k in keys)
    obs = [cnt.get(k, 0) for k in keys]
    exp = [tot * jdd[k] for k in keys]
    s, df, p = stats.chi2_test(obs, exp)
    if p < stats.ALPHA:
        raise Violation("sample-frequencies", f"sampling from the cover distribution does not reproduce it: observed "
                                              f"{dict(zip(keys, obs))}, expected {dict(zip(keys, [round(e) for e in exp]))}, "
                                              f"chi2={s:.1f} df={df} p={p:.3g}")
    return {"nontrivial": len(keys) >= 2, "classes": ["statistical"], "notes": {"p_sample": p}}


def check(case):
    from gcmpy import JointDegreeCover, JointDegreeNames as JN, JointDegreeDistribution, JointDegreeType
    from gcmpy import GCMAlgorithmFast, GCMAlgorithmNames as GN, clique_motif, EECC
    if case.get("stat"):
        return stat_check(case)
    classes = set()
    if "eecc" in case:
        e = case["eecc"]
        net = EECC()
        for a, b in e["edges"]:
            net.add_edge((a, b))
        net.set_max_clique_size(e["m0"])
        with rng.seeded(e["seed"]):
            try:
                cover = [list(c) for c in net.get_EECC()]
            except Exception:
                return {"nontrivial": False, "classes": ["eecc_failed"]}
        # relabel to contiguous ids from 0 (EECC graphs may skip vertices)
        ids = sorted({v for c in cover for v in c})
        rel = {v: i for i, v in enumerate(ids)}
        cover = [[rel[v] for v in c] for c in cover]
        classes.add("from_eecc")
    else:
        cover = [list(c) for c in case["cover"]]
    if case.get("id_type", "int") != "int":
        import numpy as np
        conv = getattr(np, case["id_type"])
        cover = [[conv(v) for v in c] for c in cover]  # vertex ids taken from integer arrays
        classes.add("numpy_vertex_ids")
    verts = sorted({int(v) for c in cover for v in c})
    base = verts[0]
    V = len(verts)
    if verts != list(range(base, base + V)) or base not in (0, 1):
        raise RuntimeError("harness: cover vertices not contiguous")
    sizes = sorted({len(c) for c in cover})
    import copy
    given = copy.deepcopy(cover)
    if case.get("first_cover") and sorted({len(c) for c in case["first_cover"]}) == sizes:
        ld = call("construct-first", JointDegreeCover, {JN.COVER: [list(c) for c in case["first_cover"]]})
        ld.cover = cover
        call("create_jdd-after-setter", ld.create_jdd)
        classes.add("cover_replaced_through_setter")
    else:
        ld = call("construct", JointDegreeCover, {JN.COVER: cover})
    ld = clone_point(ld, case)
    # a shallow copy of the loader re-pointed at another cover and re-tabulated is a loader of its own: the first one
    # keeps its distribution
    import copy as _copy
    twin = _copy.copy(ld)
    twin.cover = [[base + i for i in range(5)], [base + 4, base + 5]]
    twin.motif_sizes = [2, 5]
    call("create_jdd-on-a-copy", twin.create_jdd)
    # a second loader, for an unrelated cover with other clique sizes, is built in the same process and kept alive:
    # what the first one reports and samples is its own business
    other = call("construct-second-loader", JointDegreeCover,
                 {JN.COVER: [[base + i for i in range(7)], [base + i for i in range(6, 9)]]})
    if sorted(other.motif_sizes) != [3, 7]:
        raise Violation("motif-sizes", f"second loader reports motif_sizes {other.motif_sizes} for a 7-clique and a triangle")
    if cover != given:
        raise Violation("cover-mutated", "the cover passed in was modified")
    if list(ld.motif_sizes) != sizes:
        raise Violation("motif-sizes", f"motif_sizes {ld.motif_sizes}, clique sizes occurring {sizes}")
    per_vertex = {v: tuple(sum(1 for c in cover if len(c) == s and v in c) for s in sizes) for v in verts}
    want = {k: n / V for k, n in Counter(per_vertex.values()).items()}
    jdd = ld.jdd
    if not isinstance(jdd, dict):
        raise Violation("jdd-type", f".jdd is {type(jdd).__name__}")
    for k in jdd:
        if not (isinstance(k, tuple) and len(k) == len(sizes)):
            raise Violation("key-shape", f"key {k!r}: expected tuples with one column per occurring size {sizes}")
    if set(jdd) != set(want) or any(abs(jdd[k] - want[k]) > 1e-12 for k in want):
        raise Violation("jdd-table", f"jdd {jdd} != per-vertex clique counts {want} (sizes {sizes}, cover {cover})")
    # clique-size profile identity: V * sum_t jdd[t]*t_i / size_i = number of cliques of size_i
    for i, s in enumerate(sizes):
        lhs = V * sum(p * t[i] for t, p in jdd.items()) / s
        n = sum(1 for c in cover if len(c) == s)
        if abs(lhs - n) > 1e-9:
            raise Violation("profile", f"expected number of {s}-cliques {lhs} != {n}")
    # same through the dispatcher
    ld2 = call("dispatch", JointDegreeDistribution.load_joint_degree,
               {JN.JOINT_DEGREE_TYPE: JointDegreeType.COVER, JN.COVER: copy.deepcopy(cover)})
    if ld2.jdd != jdd or list(ld2.motif_sizes) != sizes:
        raise Violation("dispatch-differs", f"dispatcher gives {ld2.jdd} / {ld2.motif_sizes}")
    # sampling + generation with clique motifs of the reported sizes: as many vertices as the cover has, and very few
    # (fewer vertices than the largest clique has members)
    for Ns in (V, 1, 2, 3):
        with rng.seeded(case["seed"] + Ns):
            jds = call("sample", ld.sample_jds_from_jdd, Ns)
            gen = GCMAlgorithmFast({GN.MOTIF_SIZES: list(ld.motif_sizes), GN.BUILD_FUNCTIONS: [clique_motif] * len(sizes),
                                    GN.EDGE_NAMES: [f"{s}-clique" for s in sizes]})
            el = call("generate", gen.random_clustered_graph, jds)
        if len(jds) != Ns:
            raise Violation("sample-length", f"asked for {Ns} joint degrees, got {len(jds)}")
        cols = [sum(c) for c in zip(*jds)]
        if any(c % s for c, s in zip(cols, sizes)):
            raise Violation("sample-handshake", f"{Ns} sampled joint degrees {jds}: column sums {cols} vs sizes {sizes}")
        # every reported size s yields cols/s cliques with s(s-1)/2 edges each: the generated clique-size profile
        per_id = Counter(el.motif_id)
        got_profile = Counter(per_id.values())
        want_profile = Counter()
        for c, s in zip(cols, sizes):
            if c and s >= 2:  # 1-cliques have no edges and therefore no rows / ids
                want_profile[s * (s - 1) // 2] += c // s
        if got_profile != want_profile:
            raise Violation("generate-profile", f"generated motifs by edge count {dict(got_profile)}, expected {dict(want_profile)}")
    gaps = [s for s in range(2, max(sizes)) if s not in sizes]
    if len(sizes) >= 2:
        classes.add("ge2_sizes")
    if len(gaps) >= 2:
        classes.add("ge2_absent_sizes_below_max")
    elif len(gaps) == 1:
        classes.add("one_absent_size")
    classes.add(f"base{base}")
    return {"nontrivial": len(sizes) >= 2, "classes": sorted(classes)}
