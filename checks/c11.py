"""C11 -- MCMC rewiring preserves vertices, degrees and motif structure."""
import copy

from vlib.runner import Violation, open_finding
from checks import mcmc_common as M
from checks import net_common as NC

PID = "C11"
RULE = ("Hypothesis-generated clean motif networks (16..40 vertices quick / ..120 thorough, 1..3 topologies out of "
        "cliques 2..4, cycles 4..5 and a two-name 4-clique ('split4': strong/weak paths, i.e. a multi-topology motif), "
        "edge-disjoint motifs on distinct vertices, vertices registered in sorted or in motif-list order; optionally an "
        "earlier rewire() on the same object or a network replaced through the setter) x full-support symmetric positive "
        "targets x CONVERGENCE_LIMIT in {0,1,2,3,5,10,25,60} or omitted (default; networks <= 40 edges) x SEARCH_LIMIT "
        "in {1,2,5,10,20,30} or omitted x RNG seeded or scripted, under an RNG-draw budget of 4000+500 per requested swap (max 200000). The working copy is a "
        "journalling nx.Graph subclass, so every accepted swap is observed: clauses (A) input untouched, (B) vertices / "
        "annotations / per-topology degrees, (C) motif shape per motif id, (D) no self-loop or duplicate edge, (E) no "
        "exception, are asserted after every swap batch and on the returned graph. Non-trivial = at least one accepted "
        "swap; distinct = canonical JSON")
ASSUMPTIONS = ["termination is not part of the property: runs cut by the RNG-draw budget are counted inconclusive (their "
               "journal prefix is still checked)",
               "clause (C) is suspended for the rest of a history once the OPEN known finding C11-corner-motif-id has "
               "manifested in it (ids are then scrambled by that defect); single-swap histories keep it fully sensitive"]
BUDGET = {"quick": (16, 120), "thorough": (16, 3000)}
SHRINK_IN_QUICK = False


def strategy(tier):
    return M.mcmc_case(tier, holes=False)


def analyse(case, R):
    """replays the journal; returns (swaps, known_hit, classes).  Raises Violation."""
    from gcmpy import NetworkNames as NN
    state = copy.deepcopy(R.before[1])
    bs = M.batches(R.journal)
    # attributes of an added edge: from its later removal, else from the working graph at the end
    flat = list(R.journal)
    attrs_at = {}
    for i, ev in enumerate(flat):
        if ev[0] != "add":
            continue
        pair = frozenset((ev[1], ev[2]))
        found = None
        for ev2 in flat[i + 1:]:
            if ev2[0] == "remove" and frozenset((ev2[1], ev2[2])) == pair:
                found = ev2[3]
                break
            if ev2[0] == "add" and frozenset((ev2[1], ev2[2])) == pair:
                break
        if found is None and R.work is not None and R.work.has_edge(ev[1], ev[2]):
            found = dict(R.work.edges[ev[1], ev[2]])
        attrs_at[i] = found or {}
    idx = 0
    corrupted = False
    known = 0
    classes = set()
    for bi, b in enumerate(bs):
        new_groups = {}
        for ev in b["adds"]:
            _, u, v, present = ev
            if u == v:
                raise Violation("self-loop", f"swap {bi}: self-loop ({u},{v}) added; batch {b}")
            pair = frozenset((u, v))
            if present or pair in state:
                raise Violation("duplicate-edge", f"swap {bi}: edge ({u},{v}) added although present")
            while flat[idx] is not ev:
                idx += 1
            state[pair] = dict(attrs_at[idx])
            new_groups.setdefault(u, []).append(pair)
        for ev in b["removes"]:
            _, u, v, d = ev
            pair = frozenset((u, v))
            if pair not in state:
                raise Violation("remove-absent", f"swap {bi}: removed edge ({u},{v}) that is not present")
            del state[pair]
        msg = M.degrees_ok(state, R, case)
        if msg:
            raise Violation("degrees", f"after swap {bi}: {msg}; batch adds {[e[1:3] for e in b['adds']]} removes {[e[1:3] for e in b['removes']]}")
        if not corrupted:
            msg = M.motif_shapes_ok(state, case)
            if msg:
                # is this exactly the open finding: the two groups of new corner edges carry each other's ids?
                st2 = copy.deepcopy(state)
                groups = list(new_groups.values())
                if len(groups) == 2:
                    ida = {st2[p].get(NN.MOTIF_IDS) for p in groups[0]}
                    idb = {st2[p].get(NN.MOTIF_IDS) for p in groups[1]}
                    if len(ida) == 1 and len(idb) == 1:
                        a, bb = ida.pop(), idb.pop()
                        for p in groups[0]:
                            st2[p][NN.MOTIF_IDS] = bb
                        for p in groups[1]:
                            st2[p][NN.MOTIF_IDS] = a
                if M.motif_shapes_ok(st2, case) is None and st2 != state and open_finding(M.FINDING_ID):
                    corrupted = True
                    known += 1
                else:
                    raise Violation("motif-shape", f"after swap {bi}: {msg}; batch adds {[e[1:3] for e in b['adds']]} removes {[e[1:3] for e in b['removes']]}")
        if len(b["adds"]) > 2:
            classes.add("multi_edge_corner_swap")
    return len(bs), state, corrupted, known, classes


def check(case):
    from gcmpy import NetworkNames as NN
    R = M.run_rewire(case)
    classes = set()
    if R.after != R.before or R.input_journal:
        raise Violation("input-modified", f"the network passed in was modified (journal on the input graph: {R.input_journal[:4]})")
    swaps, state, corrupted, known, cl = analyse(case, R)
    classes |= cl
    if R.error is not None:
        txt = M.error_text(R)
        if R.where == "rewire" and corrupted and "already present" in str(R.error):
            known += 1
            classes.add("error_after_known_finding")
        else:
            raise Violation(f"raises:{type(R.error).__name__}@{R.where}", f"{R.where} raised {txt} (L={case['L']}, search={case['search']}) after {swaps} swaps")
    elif not R.budget:
        out = R.out
        if out is None or not hasattr(out, "edges"):
            raise Violation("no-graph", f"rewire() returned {out!r}")
        if set(out.nodes()) != set(R.before[0]):
            raise Violation("node-set", "returned graph has a different vertex set")
        for v, d in R.before[0].items():
            if M._plain(dict(out.nodes[v])) != d:
                raise Violation("node-annotation", f"vertex {v} annotation {dict(out.nodes[v])} != {d}")
        final = M.snapshot(out)[1]
        if any(len(e) == 1 for e in final):
            raise Violation("self-loop", f"returned graph has self-loops {[sorted(e) for e in final if len(e) == 1]}")
        if R.journal and final != state:
            raise RuntimeError("harness: journal replay does not reproduce the returned graph")
        msg = M.degrees_ok(final, R, case)
        if msg:
            raise Violation("degrees", f"returned graph: {msg}")
        if not R.journal:
            # no journal (working copy not observable, or edited in a way that is not split into swaps here): final-state
            # oracle only.  Clause (C) can then not be separated from the open finding (new corner edges inherit the
            # motif id of the motif they leave, see known_findings.json): it is asserted only when that finding is closed.
            msg = M.motif_shapes_ok(final, case)
            if msg and not open_finding(M.FINDING_ID):
                raise Violation("motif-shape", f"returned graph: {msg}")
            swaps = 1 if final != R.before[1] else 0
            classes.add("no_journal")
    if any(t["kind"] == "split4" for t in case["net"]["topos"]):
        classes.add("multi_topology_motifs")
    if case["net"].get("node_order") == "by_motifs":
        classes.add("vertices_in_motif_list_order")
    if case.get("earlier_rewire"):
        classes.add("second_rewire_on_object")
    if case.get("constructed_for_shift"):
        classes.add("network_replaced_through_setter")
    if case["L"] is None:
        classes.add("default_convergence_limit")
    if case["search"] is None:
        classes.add("default_search_limit")
    if case["L"] == 0:
        classes.add("single_swap")
    if R.budget:
        classes.add("budget_cut")
    classes.add("rng_" + case["rng"]["mode"])
    info = {"nontrivial": swaps >= 1, "classes": sorted(classes), "inconclusive": R.budget, "notes": {"swaps": swaps}}
    if known:
        info["known"] = [M.FINDING_ID]
    return info
