"""C15 -- automated motif equation equals the exact bond-percolation expectation (polynomial identity)."""
from fractions import Fraction
from itertools import combinations

from hypothesis import strategies as st

from vlib import oracles
from vlib.poly import Poly
from vlib.runner import Violation, call, clone_point

PID = "C15"
RULE = ("(a) exhaustive: every connected graph of the networkx atlas on <= 5 nodes plus every connected 6-node graph "
        "with <= 8 edges (quick) / every connected graph on <= 6 nodes (thorough), every focal vertex, evaluated with "
        "exact polynomial arguments (phi and one variable per vertex) on a fresh evaluator: the returned polynomial "
        "must equal the brute-force expectation polynomial; (b) Hypothesis-generated histories on one shared evaluator "
        "over a pool of distinctly named motifs (atlas graphs, cliques <= 6, cycles <= 9, trees, relabelled ids): each "
        "step evaluates (motif, focal, phi, heterogeneous u) with exact Fractions and must equal the oracle. "
        "In (a) the identity is also evaluated at 9-15 special points with plain numbers (all u equal, all one, all zero, product of u exactly 1 with unequal factors, phi in {0,1}). Non-trivial = motif with >= 3 vertices and a cycle (a), or history with >= 2 motifs and >= 2 different phi on "
        "one motif (b); distinct = canonical JSON")
ASSUMPTIONS = ["motifs evaluated on one evaluator carry distinct names (the documented cache key)",
               "the equation code is duck typed: exact Poly/Fraction arguments flow through unchanged arithmetic"]
BUDGET = {"quick": (16, 60), "thorough": (16, 1500)}
EXHAUSTIVE = True
EXHAUSTIVE_NOTE = "family (a) of RULE: all connected atlas graphs in the stated range x all focal vertices"
ENUM_CHUNK = 4


def atlas_connected(max_nodes, max_edges_at_max=None):
    import networkx as nx
    from networkx.generators.atlas import graph_atlas_g
    out = []
    for i, G in enumerate(graph_atlas_g()):
        n = G.number_of_nodes()
        if n < 2 or n > max_nodes or not nx.is_connected(G):
            continue
        if max_edges_at_max is not None and n == max_nodes and G.number_of_edges() > max_edges_at_max:
            continue
        out.append((i, G))
    return out


def enumerated(tier, seed):
    cases = []
    graphs = atlas_connected(6, 8 if tier == "quick" else None)
    for i, G in graphs:
        for root in G.nodes():
            cases.append({"kind": "identity", "name": f"atlas{i}", "edges": [list(e) for e in G.edges()], "root": root})
        if 3 <= G.number_of_nodes() <= 5:
            # the same motif on the ids -2, -1, 0, ... (hash(-1) == hash(-2)): distinct vertices of one motif
            g = lambda v: v - 2
            for root in G.nodes():
                cases.append({"kind": "identity", "name": f"atlas{i}-neg", "edges": [[g(a), g(b)] for a, b in G.edges()],
                              "root": g(root)})
        if 3 <= G.number_of_nodes() <= 5:
            # one vertex named by the frozenset of two adjacent vertices' names (it equals, as a set, a connected vertex
            # set of the motif): for every edge (a, b) and every third vertex w, focal vertex a
            done = 0
            for a, b in G.edges():
                for w in G.nodes():
                    if w not in (a, b) and done < 4:
                        cases.append({"kind": "identity", "name": f"atlas{i}-set{done}", "edges": [list(e) for e in G.edges()],
                                      "root": a, "set_label": [a, b, w]})
                        done += 1
        if G.number_of_nodes() <= 5:
            # the same motif with ids beyond the small-int cache, edges listed (larger, smaller), focal id passed
            # as a separately created equal object
            f = lambda v: 2000 - 13 * v
            for root in G.nodes():
                cases.append({"kind": "identity", "name": f"atlas{i}-big", "edges": [[f(a), f(b)] for a, b in G.edges()],
                              "root": f(root)})
    # u handed over as plain Python ints (any real u is legal), large enough that a product leaves the int64 range
    tri = [[0, 1], [1, 2], [0, 2]]
    c4 = [[0, 1], [1, 2], [2, 3], [3, 0]]
    for edges, us in ((tri, [1, 2 ** 32, 2 ** 32]), (tri, [2 ** 40, 2 ** 31, 3]), (tri, [1, 3037000500, -3037000500]),
                      (c4, [1, 2 ** 21, 2 ** 21, 2 ** 22]), (c4, [2, 10 ** 7, 10 ** 7, 10 ** 6]), (tri, [0, 3, 5])):
        n = len(us)
        cases.append({"kind": "history", "pool": [{"name": f"ints{len(cases)}", "edges": edges}], "plain": True, "ints": True,
                      "abort_after": 0,
                      "steps": [{"m": 0, "root": r, "phi": ph, "u": [[x, 1] for x in us]} for r in range(n) for ph in ([1, 2], [1, 3])]})
    return cases


@st.composite
def motif(draw, idx):
    kind = draw(st.sampled_from(["atlas", "atlas", "clique", "cycle", "tree", "chorded"]))
    if kind == "clique":
        n = draw(st.integers(2, 5))
        edges = [list(p) for p in combinations(range(n), 2)]
    elif kind == "cycle":
        n = draw(st.integers(3, 8))
        edges = [[i, (i + 1) % n] for i in range(n)]
    elif kind == "tree":
        n = draw(st.integers(2, 7))
        edges = [[draw(st.integers(0, i - 1)), i] for i in range(1, n)]
    elif kind == "chorded":
        n = draw(st.integers(4, 6))
        edges = [[i, (i + 1) % n] for i in range(n)]
        ch = draw(st.lists(st.sampled_from([list(p) for p in combinations(range(n), 2) if list(p) not in edges and [p[1], p[0]] not in edges]),
                           min_size=1, max_size=2, unique_by=tuple))
        edges += ch
    else:
        # a random connected graph on <= 6 vertices with <= 9 edges: spanning tree + extra edges
        n = draw(st.integers(3, 6))
        edges = [[draw(st.integers(0, i - 1)), i] for i in range(1, n)]
        extra = [list(p) for p in combinations(range(n), 2) if list(p) not in edges]
        edges += draw(st.lists(st.sampled_from(extra), max_size=min(4, len(extra)), unique_by=tuple)) if extra else []
    relabel = draw(st.sampled_from(["id", "offset", "perm", "big", "neg"]))
    n = max(max(e) for e in edges) + 1
    lab = list(range(n))
    if relabel == "offset":
        lab = [7 * i + 3 for i in range(n)]
    elif relabel == "big":
        lab = [1000 + 17 * i for i in range(n)]  # ids outside CPython's small-int cache
    elif relabel == "neg":
        lab = [x - 2 for x in draw(st.permutations(list(range(n))))]  # -2 and -1 hash alike in CPython
    elif relabel == "perm":
        lab = list(draw(st.permutations(lab)))
    return {"name": f"m{idx}-{kind}", "edges": [[lab[a], lab[b]] for a, b in edges]}


@st.composite
def history(draw, tier):
    pool = [draw(motif(i)) for i in range(draw(st.integers(2, 4)))]
    frac = st.fractions(min_value=0, max_value=1, max_denominator=12)
    steps = []
    phis = draw(st.lists(frac, min_size=1, max_size=3, unique=True))
    for _ in range(draw(st.integers(2, 8))):
        mi = draw(st.integers(0, len(pool) - 1))
        nodes = sorted({v for e in pool[mi]["edges"] for v in e})
        root = draw(st.sampled_from(nodes))
        phi = draw(st.sampled_from(phis))
        us = [draw(frac) for _ in nodes]
        steps.append({"m": mi, "root": root, "phi": [phi.numerator, phi.denominator],
                      "u": [[x.numerator, x.denominator] for x in us]})
    # "plain": phi and u are handed over as ordinary Python numbers (floats, exact zeros included), the way
    # message passing calls the evaluator; otherwise as exact polynomial constants
    return {"kind": "history", "pool": pool, "steps": steps, "plain": draw(st.booleans()),
            "abort_after": draw(st.sampled_from([0, 0, 0, 1, 2, 3, 5, 8, 13]))}


def strategy(tier):
    return history(tier)


def graph_of(name, edges, uvals):
    import networkx as nx
    G = nx.Graph(name=name)
    G.add_edges_from(map(tuple, edges))
    nx.set_node_attributes(G, uvals, "u")
    return G


def relabel(case):
    """vertex names are arbitrary hashables.  "set_label": [a, b, w] names vertex w by the frozenset {a, b} of two other
    vertices' names (as quotient / incidence constructions do); the oracle keeps working on the integer ids."""
    sl = case.get("set_label")
    if not sl:
        return lambda v: v
    fs = frozenset(sl[:2])
    return lambda v: fs if v == sl[2] else v


_oracle_cache = {}


def oracle_poly(edges, root):
    key = (tuple(map(tuple, edges)), root)
    if key not in _oracle_cache:
        nodes = sorted({v for e in edges for v in e})
        if len(_oracle_cache) > 5000:
            _oracle_cache.clear()
        _oracle_cache[key] = oracles.percolation_poly(nodes, [tuple(e) for e in edges], root)
    return _oracle_cache[key]


def special_points(case, edges, root, nodes, want):
    """The identity also holds at points a value-dependent shortcut would single out (plain Python numbers, as
    message passing passes them): all u equal, all u one, u whose product over the other vertices is exactly 1
    although they differ, zeros, negative values, phi in {0, 1}."""
    from gcmpy.message_passing.equations.automated_equation import AutomatedEquation
    others = [v for v in nodes if v != root]
    pts = [("all-equal", 0.3, {v: 0.5 for v in others}), ("all-one", 0.6, {v: 1.0 for v in others}),
           ("all-zero", 0.7, {v: 0.0 for v in others}),
           ("phi-zero", 0.0, {v: 0.25 + 0.125 * k for k, v in enumerate(others)}),
           ("phi-one", 1.0, {v: 0.25 + 0.125 * k for k, v in enumerate(others)}),
           ("all-equal-2", 0.75, {v: 0.25 for v in others})]
    if len(others) >= 2:
        for tag, head in (("product-one", [2.0, 0.5]), ("product-one-negative", [-1.0, -1.0]), ("product-one-3", [4.0, 0.5, 0.5])):
            if len(head) <= len(others):
                for shift in (0, len(others) - len(head)):
                    us = {v: 1.0 for v in others}
                    for k, x in enumerate(head):
                        us[others[shift + k]] = x
                    pts.append((tag, 0.5 if shift == 0 else 0.2, us))
    import numpy as np
    if len(others) >= 2:
        # u handed over as NumPy arrays (0-d, or vectors evaluating several sample points at once)
        base_u = {v: 0.25 + 0.125 * k for k, v in enumerate(others)}
        for tag, mk in (("arrays-0d", lambda x: np.array(x)), ("arrays-1d", lambda x: np.array([x, 1.0 - x / 2, x]))):
            arrs = {v: mk(x) for v, x in base_u.items()}
            keep = {v: a.copy() for v, a in arrs.items()}
            rl = relabel(case)
            Gn = graph_of(case["name"] + "@" + tag, [[rl(a), rl(b)] for a, b in edges], {**{rl(v_): a for v_, a in arrs.items()}, rl(root): np.array(7.0)})
            try:
                g = call("automated_equation", AutomatedEquation().automated_equation, Gn, 0.4, int(str(root)))
            except Violation as v_:
                if ":TypeError@" in v_.kind or ":ValueError@" in v_.kind:
                    continue  # array-valued u not accepted (an implementation may insist on real numbers): not applicable
                raise
            gl = np.atleast_1d(np.asarray(g, dtype=float))
            for j in range(len(gl)):
                uj = {v: float(np.atleast_1d(keep[v])[j if keep[v].ndim else 0]) for v in others}
                w = want.subs({**{f"u{v_}": Fraction(x) for v_, x in uj.items()}, f"u{root}": Fraction(7), "p": Fraction(0.4)})
                if abs(float(gl[j]) - float(w)) > 1e-9 * max(1.0, abs(float(w))):
                    raise Violation("identity-special-point", f"motif {case['name']} edges {edges} focal {root} phi 0.4 u as {tag} {keep}: "
                                                              f"got {g!r}, exact expectation {float(w)!r} (component {j})")
            if any(not np.array_equal(arrs[v], keep[v]) for v in others):
                raise Violation("input-mutated", f"motif {case['name']} focal {root}: the u arrays handed over were changed: {keep} -> {arrs}")
    for tag, phi, us in pts:
        us = {**us, root: 7.0}  # the focal vertex's own value is not part of the expectation
        rl = relabel(case)
        Gn = graph_of(case["name"] + "@" + tag, [[rl(a), rl(b)] for a, b in edges], {rl(v_): x for v_, x in us.items()})
        g = call("automated_equation", AutomatedEquation().automated_equation, Gn, phi, int(str(root)))
        w = want.subs({**{f"u{v_}": Fraction(x) for v_, x in us.items()}, "p": Fraction(phi)})
        if abs(float(g) - float(w)) > 1e-9 * max(1.0, abs(float(w))):
            raise Violation("identity-special-point", f"motif {case['name']} edges {edges} focal {root} phi {phi} u {us} ({tag}): "
                                                      f"got {g!r}, exact expectation {float(w)!r}")


def check(case):
    import networkx as nx
    from gcmpy.message_passing.equations.automated_equation import AutomatedEquation
    if case["kind"] == "identity":
        edges, root = case["edges"], case["root"]
        nodes = sorted({v for e in edges for v in e})
        rl = relabel(case)
        ledges = [[rl(a), rl(b)] for a, b in edges]
        G = graph_of(case["name"], ledges, {rl(v): Poly.var(f"u{v}") for v in nodes})
        want = oracle_poly(edges, root)
        try:
            got = call("automated_equation", AutomatedEquation().automated_equation, G, Poly.var("p"), int(str(root)))
        except Violation as v:
            # any TypeError / ValueError met while *polynomial objects* are pushed through the code only says that the
            # exact polynomial type was not accepted (an implementation may insist on real numbers): the same motif is
            # then judged with exact rationals and plain numbers, where a genuine error shows again
            if not (":TypeError@" in v.kind or ":ValueError@" in v.kind):
                raise
            # the exact polynomial type could not be pushed through the code: evaluate exactly on rational points instead
            import itertools
            grid = [Fraction(a, b) for a, b in [(0, 1), (1, 3), (1, 2), (3, 4), (1, 1), (3, 2), (-1, 2)]]
            for gi, phi in enumerate(grid):
                for rep in range(3):
                    us = {v_: grid[(gi + rep + 2 * k_) % len(grid)] for k_, v_ in enumerate(nodes)}
                    Gn = graph_of(case["name"] + f"#{gi}.{rep}", ledges, {rl(v_): x for v_, x in us.items()})
                    g = call("automated_equation", AutomatedEquation().automated_equation, Gn, phi, int(str(root)))
                    w = want.subs({**{f"u{v_}": x for v_, x in us.items()}, "p": phi})
                    if abs(float(g) - float(w)) > 1e-9 * max(1.0, abs(float(w))):
                        raise Violation("identity-grid", f"motif {case['name']} edges {edges} focal {root} phi {phi} u {us}: got {g}, exact {w}")
            special_points(case, edges, root, nodes, want)
            return {"nontrivial": len(nodes) >= 3, "classes": ["rational_grid_fallback"]}
        special_points(case, edges, root, nodes, want)
        if not isinstance(got, Poly):
            got = Poly.const(Fraction(got))
        if got != want:
            diff = got - want
            raise Violation("polynomial-identity", f"motif {case['name']} edges {edges} focal {root}: automated equation differs "
                                                   f"from the exact expectation; difference has {len(diff.t)} terms, e.g. {str(diff)[:300]}")
        H = nx.Graph(list(map(tuple, edges)))
        cyc = H.number_of_edges() >= H.number_of_nodes()
        return {"nontrivial": len(nodes) >= 3 and cyc, "classes": [f"n{len(nodes)}"] + (["has_cycle"] if cyc else ["tree"]) +
                (["vertex_named_by_a_frozenset_of_vertices"] if case.get("set_label") else [])}
    if not case.get("plain") and not case.get("_retry"):
        try:
            return check({**case, "_retry": True})
        except Violation as v:
            if ":TypeError@" in v.kind or ":ValueError@" in v.kind:
                # the exact polynomial type could not be pushed through the code: judge the same history with plain numbers
                return check({**case, "plain": True})
            raise
    AE = AutomatedEquation()
    seen = {}
    if case.get("abort_after"):
        # an earlier evaluation of the first motif on this evaluator was interrupted part-way (an exception out of the
        # graph object: a timeout, an interrupt): what the evaluator computes afterwards is unaffected
        import networkx as nx

        class Interrupted(Exception):
            pass

        class FlakyGraph(nx.Graph):
            budget = [case["abort_after"]]

            def copy(self, as_view=False):
                self.budget[0] -= 1
                if self.budget[0] < 0:
                    raise Interrupted()
                return super().copy(as_view=as_view)
        stp0 = case["steps"][0]
        mo0 = case["pool"][stp0["m"]]
        nodes0 = sorted({v for e in mo0["edges"] for v in e})
        F = FlakyGraph(name=mo0["name"])
        F.add_edges_from(map(tuple, mo0["edges"]))
        nx.set_node_attributes(F, {v: 0.5 for v in nodes0}, "u")
        try:
            AE.automated_equation(F, 0.5, int(str(stp0["root"])))
        except Interrupted:
            pass
        except Exception:
            pass
    for si, stp in enumerate(case["steps"]):
        if si == len(case["steps"]) // 2:
            AE = clone_point(AE, case)  # half way through, the caller goes on with a copy of the evaluator
        mo = case["pool"][stp["m"]]
        nodes = sorted({v for e in mo["edges"] for v in e})
        phi = Fraction(*stp["phi"])
        us = {v: Fraction(*x) for v, x in zip(nodes, stp["u"])}
        env = {f"u{v}": x for v, x in us.items()}
        env["p"] = phi
        if case.get("plain"):
            G = graph_of(mo["name"], mo["edges"], {v: (int(x) if case.get("ints") else float(x) if x else (0 if v % 2 else 0.0)) for v, x in us.items()})
            got = call("automated_equation", AE.automated_equation, G, float(phi), int(str(stp["root"])))
            wv = oracle_poly(mo["edges"], stp["root"]).subs(env)
            if abs(float(got) - float(wv)) > 1e-9 * max(1.0, abs(float(wv))):
                raise Violation("history-dependence", f"step {si} of {len(case['steps'])} on a shared evaluator (plain float arguments): "
                                                      f"motif {mo['name']} edges {mo['edges']} focal {stp['root']} phi {float(phi)} u {us}: got "
                                                      f"{got!r}, exact expectation {float(wv)!r}; earlier steps {case['steps'][:si]}")
            seen.setdefault(stp["m"], set()).add(phi)
            continue
        G = graph_of(mo["name"], mo["edges"], {v: Poly.const(x) for v, x in us.items()})
        got = call("automated_equation", AE.automated_equation, G, Poly.const(phi), int(str(stp["root"])))
        if isinstance(got, Poly):
            if not got.is_const():
                raise Violation("history-nonconstant", f"step {si}: result still contains variables")
            got = got.const_value()
        # oracle polynomial may not mention every variable
        want = oracle_poly(mo["edges"], stp["root"])
        wv = want.subs({**{k: 0 for k in []}, **env})
        if Fraction(got) != wv:
            raise Violation("history-dependence", f"step {si} of {len(case['steps'])} on a shared evaluator: motif {mo['name']} "
                                                  f"edges {mo['edges']} focal {stp['root']} phi {phi} u {us}: got {got} = {float(got)}, "
                                                  f"exact expectation {wv} = {float(wv)}; earlier steps {case['steps'][:si]}")
        seen.setdefault(stp["m"], set()).add(phi)
    nt = len(seen) >= 2 and any(len(p) >= 2 for p in seen.values())
    return {"nontrivial": nt, "classes": ["history"] + (["after_an_interrupted_evaluation"] if case.get("abort_after") else [])}
