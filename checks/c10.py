"""C10 -- MPCC labels partition the edges into maximal-first disjoint cliques."""
import ast
import re
from itertools import combinations

from hypothesis import strategies as st

from vlib import rng
from vlib.runner import Violation, call

PID = "C10"
RULE = ("Hypothesis-generated simple loop-free graphs built as unions of planted cliques plus random edges, isolated "
        "vertices allowed, node ids relabelled by a random injective map and inserted in random order; a history of "
        "MPCC calls with limits from {0,2,3,4,5} on the same graph object interleaved with in-place edge additions / "
        "removals; RNG seeded or scripted (the shuffle among equal-sized cliques). Plus every graph of the networkx "
        "atlas on <= 5 (quick) / <= 6 nodes x limits {0,2,3} x 3 schedules. Vertex names: ints (incl. -1, 0, .., n-3, n-1), strings (incl. names containing the label separators), tuples; frozen graphs; two large sparse hub networks. Oracle: label partition + greedy-maximal "
        "predicate against nx.enumerate_all_cliques. Non-trivial = graph contains two triangles sharing an edge or a "
        "clique of size >= 4; distinct = canonical JSON")
ASSUMPTIONS = ["node ids are ints, strings or tuples of such (labels embed the member list textually, as the repr of a list, and are parsed back)"]
BUDGET = {"quick": (16, 250), "thorough": (16, 8000)}
LABEL = re.compile(r"^(\d+)-(\[.*\])-(\d+)$")  # members may be negative ints or tuples: only the outer fields are digits


@st.composite
def graph_history(draw, tier):
    n = draw(st.integers(2, 10 if tier == "quick" else 14))
    edges = set()
    for _ in range(draw(st.integers(0, 4))):
        k = draw(st.integers(2, min(n, 6)))
        vs = draw(st.lists(st.integers(0, n - 1), min_size=k, max_size=k, unique=True))
        edges |= {tuple(sorted(p)) for p in combinations(vs, 2)}
    pairs = [(i, j) for i in range(n) for j in range(i + 1, n)]
    edges |= set(draw(st.lists(st.sampled_from(pairs), max_size=8, unique=True)))
    if draw(st.integers(0, 3)) == 3:
        # two large cliques sharing one or two vertices, with triangles hanging on edges of the union: nested
        # cliques whose larger host is blocked by a tie-break (greedy-maximality of the sub-cliques is at stake)
        a = draw(st.integers(4, 6))
        b = draw(st.integers(4, 6))
        sh = draw(st.integers(1, 2))
        A = list(range(a))
        B = list(range(a - sh, a - sh + b))
        n = a - sh + b
        edges = {tuple(sorted(p)) for p in combinations(A, 2)} | {tuple(sorted(p)) for p in combinations(B, 2)}
        for _ in range(draw(st.integers(1, 3))):
            u, v = draw(st.sampled_from(sorted(edges)))
            edges |= {(u, n), (v, n)}
            n += 1
    edges = sorted(edges)
    order = draw(st.permutations(edges)) if edges else []
    flip = [draw(st.booleans()) for _ in order]
    relabel = draw(st.sampled_from(["id", "offset", "perm", "negative", "big", "str", "str_odd", "wrap"]))
    if relabel == "perm":
        labels = draw(st.permutations(list(range(n))))
    elif relabel == "offset":
        labels = [3 * i + 5 for i in range(n)]
    elif relabel == "negative":
        labels = [x - 2 for x in draw(st.permutations(list(range(n))))]
    elif relabel == "big":
        labels = [1000 + 37 * x for x in draw(st.permutations(list(range(n))))]
    elif relabel == "wrap":
        # integer names -1, 0, .., n-3, n-1: all below n, not contiguous, and -1 + n is a name as well
        base_ = ([-1] + list(range(n - 2)) + [n - 1]) if n >= 3 else list(range(n))
        labels = [base_[x] for x in draw(st.permutations(list(range(n))))]
    elif relabel == "str":
        labels = [f"v{x}" for x in draw(st.permutations(list(range(n))))]
    elif relabel == "str_odd":
        # names that look like numbers, contain the separators of the label format, or quotes
        odd = ["1", "2", "a, b", "a", "b", "x-3", "[0]", "it's", "-", " ", "0, 1", "q\"r"]
        labels = [odd[x] if x < len(odd) else f"w{x}" for x in draw(st.permutations(list(range(n))))]
    else:
        labels = list(range(n))
    node_order = draw(st.permutations(list(range(n)))) if draw(st.booleans()) else None
    ops = [["mpcc", draw(st.sampled_from([0, 0, 2, 3, 4, 5]))]]
    for _ in range(draw(st.integers(0, 3))):
        k = draw(st.sampled_from(["mpcc", "mpcc", "add", "remove"]))
        if k == "mpcc":
            ops.append(["mpcc", draw(st.sampled_from([0, 2, 3, 4, 5]))])
        else:
            ops.append([k, draw(st.integers(0, 1000))])
    if ops[-1][0] != "mpcc":
        ops.append(["mpcc", draw(st.sampled_from([0, 2, 3, 4]))])
    r = draw(st.one_of(st.fixed_dictionaries({"mode": st.just("seed"), "seed": st.integers(0, 2 ** 31)}),
                       st.fixed_dictionaries({"mode": st.just("script"), "ints": st.lists(st.integers(0, 40), max_size=60),
                                              "tail": st.integers(0, 99)})))
    tuple_named = draw(st.integers(0, 5)) == 5
    return {"n": n, "tuple_named": tuple_named, "object_vertices": (not tuple_named) and draw(st.integers(0, 5)) == 5,
            "edges": [[(b, a) if f else (a, b)][0] for (a, b), f in zip(order, flip)], "labels": list(labels),
            "node_order": list(node_order) if node_order else None, "ops": ops, "rng": r,
            # the graph handed over may be frozen (nx.freeze): its structure is read-only, its edge attributes are not
            "frozen": draw(st.integers(0, 7)) == 7}


def strategy(tier):
    return graph_history(tier)


def enumerated(tier, seed):
    import networkx as nx
    from networkx.generators.atlas import graph_atlas_g
    out = []
    nmax = 5 if tier == "quick" else 6
    for G in graph_atlas_g():
        if G.number_of_nodes() < 2 or G.number_of_nodes() > nmax or G.number_of_edges() == 0:
            continue
        for lim in (0, 2, 3):
            for s in range(3):
                out.append({"n": G.number_of_nodes(), "edges": [list(e) for e in G.edges()], "labels": list(range(G.number_of_nodes())),
                            "node_order": None, "ops": [["mpcc", lim]], "rng": {"mode": "seed", "seed": seed * 10 + s}})
    # cliques of 10 and more vertices (two-digit sizes), with a tail
    for k in (9, 10, 11):
        es = [list(p) for p in combinations(range(k), 2)] + [[0, k], [k, k + 1], [1, k + 1]]
        for lim in (0, 10):
            out.append({"n": k + 2, "edges": es, "labels": list(range(k + 2)), "node_order": None, "ops": [["mpcc", lim]],
                        "rng": {"mode": "seed", "seed": seed}})
    # large sparse networks whose few triangles sit on high-degree hubs (average clustering below 1e-9, transitivity
    # near 0): three mutually adjacent hubs with 1500 leaves each; and a long path with one triangle at its end
    hubs = [[0, 1], [0, 2], [1, 2]] + [[h, 3 + 1500 * h + i] for h in range(3) for i in range(1500)]
    out.append({"n": 4503, "edges": hubs, "labels": list(range(4503)), "node_order": None, "ops": [["mpcc", 0]],
                "rng": {"mode": "seed", "seed": seed}, "large": True})
    # one clique of 20 vertices: more than a million sub-cliques, the largest enumerated last
    out.append({"n": 20, "edges": [list(p) for p in combinations(range(20), 2)], "labels": list(range(20)), "node_order": None,
                "ops": [["mpcc", 0]], "rng": {"mode": "seed", "seed": seed}, "large": True})
    path = [[i, i + 1] for i in range(3000)] + [[2999, 3001], [3000, 3001]]
    out.append({"n": 3002, "edges": path, "labels": list(range(3002)), "node_order": None, "ops": [["mpcc", 3]],
                "rng": {"mode": "seed", "seed": seed}, "large": True})
    return out


class Vtx:
    """a vertex that hashes / compares by identity (networkx allows any hashable node); prints as its number so that
    the member list embedded in a label can be parsed back"""
    __slots__ = ("i",)

    def __init__(self, i):
        self.i = i

    def __repr__(self):
        return str(self.i)

    def __lt__(self, o):
        return self.i < o.i


def ss(xs):
    return sorted(xs, key=repr)


def verify(G, before_nodes, before_edges, limit, step):
    import networkx as nx
    if set(G.nodes()) != before_nodes:
        raise Violation("nodes-changed", f"step {step}: node set changed")
    if {frozenset(e) for e in G.edges()} != before_edges:
        raise Violation("edges-changed", f"step {step}: edge set changed: {ss(map(ss, before_edges))} -> {ss(map(ss, G.edges()))}")
    by_label = {}
    for u, v, d in G.edges(data=True):
        lab = d.get("clique")
        if not isinstance(lab, str) or not LABEL.match(lab):
            raise Violation("label-format", f"step {step}: edge {(u, v)} has label {lab!r}")
        by_label.setdefault(lab, set()).add(frozenset((u, v)))
    ids = {}
    members_of = {}
    size_of_edge = {}
    for lab, es in by_label.items():
        m = LABEL.match(lab)
        try:
            size, members, cid = int(m.group(1)), ast.literal_eval(m.group(2)), int(m.group(3))
        except Exception:
            raise Violation("label-members", f"step {step}: the member list of label {lab!r} (edge set {ss(map(ss, es))}) does not "
                                             f"denote vertices: it cannot be read back")
        byrepr = getattr(G, "_vtx_by_number", None)
        if byrepr:
            members = [byrepr.get(x, x) for x in members]
        if size != len(members) or len(set(members)) != len(members):
            raise Violation("label-size", f"step {step}: label {lab!r}: stated size {size}, members {members}")
        if limit > 0 and size > limit:
            raise Violation("limit", f"step {step}: label {lab!r} exceeds the size limit {limit}")
        if size < 2:
            raise Violation("label-size", f"step {step}: label {lab!r} has fewer than 2 members")
        want = {frozenset(p) for p in combinations(members, 2)}
        for p in want:
            if not G.has_edge(*tuple(p)):
                raise Violation("not-a-clique", f"step {step}: label {lab!r}: members {ss(p)} are not adjacent")
        if es != want:
            raise Violation("label-edges", f"step {step}: edges carrying {lab!r} are {ss(map(ss, es))}, its member "
                                           f"pairs are {ss(map(ss, want))}")
        if cid in ids and ids[cid] != frozenset(members):
            raise Violation("id-reused", f"step {step}: id {cid} labels two cliques {ss(ids[cid])} and {members}")
        ids[cid] = frozenset(members)
        if frozenset(members) in members_of and members_of[frozenset(members)] != cid:
            raise Violation("clique-two-ids", f"step {step}: clique {members} carries two ids")
        members_of[frozenset(members)] = cid
        for e in es:
            size_of_edge[e] = size
    nt = False
    tri = 0
    for K in nx.enumerate_all_cliques(G):
        k = len(K)
        if k < 2:
            continue
        if k >= 4:
            nt = True
        if limit > 0 and k > limit:
            continue
        if not any(size_of_edge[frozenset(p)] >= k for p in combinations(K, 2)):
            raise Violation("not-greedy-maximal", f"step {step}: clique {K} has no edge in a cover clique of size >= {k} "
                                                  f"(limit {limit}); labels {sorted(by_label)}")
    # two triangles sharing an edge?
    for u, v in G.edges():
        if len(set(G[u]) & set(G[v])) >= 2:
            nt = True
            break
    return nt


def check(case):
    import networkx as nx
    from gcmpy import MPCC
    lab = case["labels"]
    G = nx.Graph()
    if case.get("object_vertices") and not any(isinstance(x, str) for x in lab):
        objs = [Vtx(x) for x in lab]
        G._vtx_by_number = {o.i: o for o in objs}
        lab = objs
    if case.get("node_order"):
        for i in case["node_order"]:
            G.add_node(lab[i])
    for a, b in case["edges"]:
        G.add_edge(lab[a], lab[b])
    for i in range(case["n"]):
        G.add_node(lab[i])
    if case.get("tuple_named") and G.number_of_edges():
        # vertex names are arbitrary hashables: add vertices named after the member tuples of existing cliques (as
        # incidence / total-graph constructions do), attached to one of the members
        for c in list(nx.enumerate_all_cliques(G)):
            if 2 <= len(c) <= 3:
                G.add_edge(tuple(c), c[0])
                if G.number_of_nodes() > case["n"] + 3:
                    break
    nt = False
    classes = set()
    r = case["rng"]
    ctx = rng.seeded(r["seed"]) if r["mode"] == "seed" else rng.scripted(ints=r["ints"], tail_seed=r.get("tail", 0))
    if case.get("frozen") and all(op == "mpcc" for op, _ in case["ops"]):
        nx.freeze(G)
        classes.add("frozen_graph")
    with ctx:
        nm = 0
        for step, (op, arg) in enumerate(case["ops"]):
            if op == "add":
                non = [(u, v) for u, v in combinations(sorted(G.nodes(), key=repr), 2) if not G.has_edge(u, v)]
                if non:
                    G.add_edge(*non[arg % len(non)])
                    classes.add("edge_added_between_calls")
                continue
            if op == "remove":
                es = sorted((tuple(sorted(e, key=repr)) for e in G.edges()), key=repr)
                if es:
                    G.remove_edge(*es[arg % len(es)])
                    classes.add("edge_removed_between_calls")
                continue
            bn, be = set(G.nodes()), {frozenset(e) for e in G.edges()}
            H = call("mpcc", MPCC, G, arg) if arg else call("mpcc", MPCC, G)
            if H is None or set(H.nodes()) != bn or {frozenset(e) for e in H.edges()} != be:
                raise Violation("returned-graph", f"step {step}: returned graph differs from the input graph")
            for X in ({id(G): G, id(H): H}).values():
                nt = verify(X, bn, be, arg, step) or nt
            nm += 1
        if nm >= 2:
            classes.add("repeated_cover")
    if case.get("tuple_named"):
        classes.add("tuple_named_vertices")
    elif list(G.nodes()) != sorted(G.nodes(), key=lambda v: (0, v) if isinstance(v, int) else (1, repr(v))):
        classes.add("unsorted_node_order")
    if any(isinstance(v, str) for v in G.nodes()):
        classes.add("string_vertex_names")
    classes.add("rng_" + r["mode"])
    return {"nontrivial": nt, "classes": sorted(classes)}
