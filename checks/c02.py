"""C02 -- edge list columns stay parallel and motif identities are well formed."""
import numbers

from vlib.runner import Violation
from checks import gcm_common as G

PID = "C02"
RULE = ("same generated cases as C01 (joint degree sequence x motif configuration x algorithm x path x RNG), motif "
        "templates weighted to 1 edge (bare and listed), exactly 2 edges and k edges with per-edge names; "
        "rows are matched to callback returns as multisets per motif id (row order, adjacency and pair orientation are free); non-trivial = some motif with >= 2 edges is instantiated and >= 2 motif instances exist; "
        "distinct = distinct canonical JSON")
ASSUMPTIONS = ["a bare-edge callback (returning one (u,v) tuple) is paired with a naming callback returning a bare "
               "string, the convention of the suite's own custom-motif fixture; only the custom generator accepts it"]
BUDGET = {"quick": (16, 300), "thorough": (16, 15000)}


def strategy(tier):
    return G.gcm_case(tier)


def check(case):
    g, cls, res, journal, jds, pristine = G.generate(case)
    algo = case["algo"]
    # expected rows, instance by instance, from the journalled callback returns
    groups = []
    for j, vs, es in journal:
        mo = case["motifs"][j]
        rows = [tuple(es)] if mo.get("ret") == "bare" else [tuple(e) for e in es]
        if mo["kind"] == "template" and rows != G.expected_rows(mo, vs):
            raise RuntimeError("harness: template callback returned unexpected rows")
        names = G.expected_names(mo)
        if mo.get("drop_loops"):
            names = names[:1] * len(rows)
        if len(names) != len(rows):
            raise RuntimeError("harness: names/rows mismatch")
        if rows:
            groups.append((rows, names))
    if algo == "network":
        from gcmpy import NetworkNames
        Gx = res.G
        # every network edge must carry the (name, id) of one journalled row with that pair, and ids must
        # identify instances: rows of different instances never share an id.
        by_pair = {}
        for gi, (rows, names) in enumerate(groups):
            for r, nme in zip(rows, names):
                by_pair.setdefault(frozenset(r), []).append((gi, nme))
        id_to_group = {}
        for u, v, d in Gx.edges(data=True):
            cands = by_pair.get(frozenset((u, v)))
            if not cands:
                raise Violation("net-unknown-edge", f"network edge {(u, v)} was returned by no callback")
            top, mid = d.get(NetworkNames.TOPOLOGY), d.get(NetworkNames.MOTIF_IDS)
            if top is None or mid is None:
                raise Violation("net-missing-attr", f"edge {(u, v)} lacks topology/motif id: {d}")
            ok = [gi for gi, nme in cands if nme == top]
            if not ok:
                raise Violation("net-edge-name", f"edge {(u, v)} named {top!r}, callbacks prescribe {[n for _, n in cands]}")
            if len(cands) == 1:
                gi = cands[0][0]
                if id_to_group.setdefault(mid, gi) != gi:
                    raise Violation("net-id-shared", f"motif id {mid} used by two different motif instances")
        nt = any(len(r) >= 2 for r, _ in groups) and len(groups) >= 2
        return {"nontrivial": nt, "classes": sorted(G.classes_of(case))}
    el, tp, mi = res.edge_list, res.topologies, res.motif_id
    if not (len(el) == len(tp) == len(mi)):
        raise Violation("columns-length", f"len(edge_list)={len(el)} len(topologies)={len(tp)} len(motif_id)={len(mi)}; "
                                          f"edge_list={el} topologies={tp} motif_id={mi}")
    for e in el:
        if not (isinstance(e, (tuple, list)) and len(e) == 2 and all(isinstance(x, numbers.Integral) and not isinstance(x, bool) for x in e)):
            raise Violation("edge-not-pair", f"edge entry {e!r} is not a pair of vertex ids; edge_list={el}")
    # group rows by motif id.  The property fixes which rows share an id and which name each row carries, not the
    # order of the rows, nor that the rows of one instance are adjacent, nor the orientation of a pair: compare, per
    # id, the multiset of (unordered pair, name) with the multiset one journalled callback return prescribes.
    from collections import Counter

    def und(e):
        return tuple(sorted(e))
    got = {}
    for e, nme, i in zip(el, tp, mi):
        try:
            hash(i)
            key = i
        except TypeError:
            key = ("unhashable", repr(i))
        got.setdefault(key, []).append((und(e), nme))
    want = [sorted(zip(map(und, rows), names), key=repr) for rows, names in groups]
    got_sorted = {i: sorted(v, key=repr) for i, v in got.items()}
    pool = Counter(repr(w) for w in want)
    unmatched = []
    for i, v in got_sorted.items():
        if pool[repr(v)] > 0:
            pool[repr(v)] -= 1
        else:
            unmatched.append((i, v))
    if unmatched or len(got_sorted) != len(want):
        left = [w for w in want if pool[repr(w)] > 0]
        if len(got_sorted) != len(want):
            raise Violation("id-groups", f"{len(got_sorted)} motif-id groups for {len(want)} motif instances with edges; "
                                         f"motif_id={mi}, instances={[r for r, _ in groups]}")
        i, v = unmatched[0]
        same_edges = [w for w in left if sorted(e for e, _ in w) == sorted(e for e, _ in v)]
        if same_edges:
            raise Violation("edge-names", f"rows with motif id {i} are named {v}, the callbacks prescribe {same_edges[0]}")
        raise Violation("id-group-edges", f"rows with motif id {i} are {[e for e, _ in v]}: not the edges of one "
                                          f"callback return (unmatched instances {[[e for e, _ in w] for w in left][:4]})")
    nt = any(len(r) >= 2 for r, _ in groups) and len(groups) >= 2
    return {"nontrivial": nt, "classes": sorted(G.classes_of(case))}
