"""C09 -- EECC returns an edge-disjoint edge clique cover within the size bound."""
from itertools import combinations

from hypothesis import strategies as st

from vlib import rng
from vlib.runner import Violation, call, clone_point

PID = "C09"
RULE = ("(a) Hypothesis-generated simple graphs without isolated vertices (unions of planted cliques plus random edges, "
        "relabelled ids, random edge insertion order/orientation) x m0 in 2..clique number+2 x scripted or seeded "
        "tie-breaks; (b) exhaustive: every graph of the networkx atlas without isolated vertices on <= 6 (quick) / <= 7 "
        "(thorough; 7-node graphs for m0<=3 only) nodes x m0 in 2..6, each with its complete tie-break decision tree when it has "
        "<= 200 leaves, else 20 seeded schedules. (c) fixed families: K8 next to the 16-cell, glued K_n, and 'necklace' graphs on exactly n vertices for every n in 8..70 and around 128 and 256. Oracle: exact-cover + size + clique + working-graph-empty + intact "
        "predicates. Non-trivial = some maximal clique larger than m0 shares an edge with another maximal clique, or "
        ">= 2 overlapping maximal cliques of size >= 3; distinct = canonical JSON")
ASSUMPTIONS = ["vertex labels are totally ordered (the cover algorithm sorts labels throughout; with partially ordered labels such as frozensets the pinned code itself returns double covers)", "each tie-break round removes at least one edge, so more than 50*|E|+100 RNG draws is reported as non-termination"]
BUDGET = {"quick": (16, 200), "thorough": (16, 8000)}
EXHAUSTIVE = True
EXHAUSTIVE_NOTE = "family (b) of RULE: all atlas graphs in the stated size range x m0, complete tie-break trees up to 200 leaves"
ENUM_CHUNK = 6


@st.composite
def archipelago_case(draw, tier):
    """many vertex-disjoint cliques (score zero at once) plus one or two clusters in which a core clique has
    smaller cliques attached along an edge (non-zero scores): stresses the index bookkeeping of the score-zero pass.
    Vertex labels are a random permutation, so the sorted position of the survivors varies."""
    blocks = []  # list of vertex-count-local edge sets, built on fresh vertices
    n = 0
    edges = []
    for _ in range(draw(st.integers(3, 12))):
        k = draw(st.sampled_from([3, 3, 3, 4, 4, 5]))
        vs = list(range(n, n + k))
        n += k
        edges += list(combinations(vs, 2))
    for _ in range(draw(st.integers(1, 2))):
        k = draw(st.sampled_from([3, 4, 4, 5]))
        core = list(range(n, n + k))
        n += k
        edges += list(combinations(core, 2))
        core_edges = list(combinations(core, 2))
        for ce in draw(st.lists(st.sampled_from(core_edges), min_size=1, max_size=4, unique=True)):
            extra = draw(st.integers(1, 2))
            vs = list(ce) + list(range(n, n + extra))
            n += extra
            edges += [p for p in combinations(vs, 2) if p != tuple(ce)]
    labels = list(draw(st.permutations(list(range(n)))))
    order = draw(st.permutations(edges))
    m0 = draw(st.sampled_from([3, 4, 4, 5, 6]))
    r = {"mode": "seed", "seed": draw(st.integers(0, 2 ** 31))}
    return {"edges": [[labels[a], labels[b]] for a, b in order], "m0": m0, "rng": r}


@st.composite
def graph_case(draw, tier):
    n = draw(st.integers(2, 9 if tier == "quick" else 12))
    edges = set()
    for _ in range(draw(st.integers(1, 5))):
        k = draw(st.integers(2, min(n, 7)))
        vs = draw(st.lists(st.integers(0, n - 1), min_size=k, max_size=k, unique=True))
        edges |= {tuple(sorted(p)) for p in combinations(vs, 2)}
    pairs = [(i, j) for i in range(n) for j in range(i + 1, n)]
    edges |= set(draw(st.lists(st.sampled_from(pairs), max_size=6, unique=True)))
    if draw(st.booleans()):
        # dense G(n,p)-like graph: many overlapping maximal cliques found in differing vertex orders
        thr = draw(st.integers(4, 7))
        coins = draw(st.lists(st.integers(0, 9), min_size=len(pairs), max_size=len(pairs)))
        edges = {p for p, c in zip(pairs, coins) if c < thr} or edges
    edges = sorted(edges)
    order = draw(st.permutations(edges))
    flip = [draw(st.booleans()) for _ in order]
    relabel = draw(st.sampled_from(["id", "id", "offset", "perm", "negative", "big", "halves"]))
    labels = list(range(n))
    if relabel == "perm":
        labels = list(draw(st.permutations(labels)))
    elif relabel == "offset":
        labels = [2 * i + 3 for i in range(n)]
    elif relabel == "big":
        labels = [10 ** 6 - 41 * x for x in draw(st.permutations(labels))]
    elif relabel == "halves":
        # vertex names are any sortable values: real-valued ids with a fractional part (0.5, 1.0, 1.5, ...)
        labels = [0.5 * (x + 1) for x in draw(st.permutations(labels))]
    elif relabel == "negative":
        # vertex ids are arbitrary integers: negative ones (-1 in particular) are legal labels
        k = draw(st.integers(1, 3))
        labels = [x - k for x in draw(st.permutations(labels))]
    m0 = draw(st.sampled_from([2, 2, 2, 3, 3, 4, 5, 6, 8]))
    r = draw(st.one_of(st.fixed_dictionaries({"mode": st.just("seed"), "seed": st.integers(0, 2 ** 31)}),
                       st.fixed_dictionaries({"mode": st.just("script"), "ints": st.lists(st.integers(0, 30), max_size=30),
                                              "tail": st.integers(0, 99)})))
    c = {"edges": [[labels[b], labels[a]] if f else [labels[a], labels[b]] for (a, b), f in zip(order, flip)],
         "m0": m0, "rng": r}
    if draw(st.integers(0, 3)) == 3:
        c["bulk"] = draw(st.sampled_from([1, 2, 3, 5]))
        # the edges may be handed over as any iterable: a list, or a one-shot iterator (zip, generator)
        c["bulk_iter"] = draw(st.sampled_from(["list", "list", "iter", "zip", "gen"]))

    if draw(st.integers(0, 4)) == 4:
        c["configure_first"] = True
    if draw(st.integers(0, 2)) == 2:
        c["prelude"] = [[draw(st.sampled_from(["lmc", "cover"])), draw(st.integers(2, 7))]
                        for _ in range(draw(st.integers(1, 2)))]
    return c


def strategy(tier):
    return st.one_of(graph_case(tier), graph_case(tier), archipelago_case(tier))


def enumerated(tier, seed):
    from networkx.generators.atlas import graph_atlas_g
    out = []
    nmax = 6 if tier == "quick" else 7
    for G in graph_atlas_g():
        n = G.number_of_nodes()
        if n < 2 or n > nmax or G.number_of_edges() == 0 or min(dict(G.degree()).values()) == 0:
            continue
        for m0 in range(2, 7):
            if n == 7 and m0 > 3:
                continue
            if m0 > n + 1:
                continue
            out.append({"edges": [list(e) for e in G.edges()], "m0": m0, "rng": {"mode": "enum", "seed": seed}})
    # K8 cut into 7-cliques next to the 16-cell K_{2,2,2,2} (sixteen 4-cliques, every edge shared): candidates of
    # different order with the same exact score, m0 = 7; and the same with m0 = 4..6
    k8 = [list(p) for p in combinations(range(8), 2)]
    cell = [[8 + a, 8 + b] for a, b in combinations(range(8), 2) if (a ^ b) != 1]
    for m0 in (7, 6, 5, 4):
        out.append({"edges": k8 + cell, "m0": m0, "rng": {"mode": "enum", "seed": seed}})
    # two K_n glued along one edge, kept whole (m0 = n): the shared edge gives each clique the score 1/C(n,2)
    for n in ([5, 8, 13, 23] if tier == "quick" else [5, 8, 13, 23, 34, 59]):
        a = list(range(n))
        b = [0, 1] + list(range(n, 2 * n - 2))
        es = sorted({tuple(sorted(p)) for p in combinations(a, 2)} | {tuple(sorted(p)) for p in combinations(b, 2)})
        out.append({"edges": [list(e) for e in es], "m0": n, "rng": {"mode": "seed", "seed": seed}})
    # necklaces on exactly n vertices, for every n from 8 to 70 and a few around 128 and 256 (a per-vertex bit
    # position, word or table index runs out at some count): a ring of d "diamonds" -- triangles {p_k, b_k, c_k} and
    # {b_k, c_k, p_k+1} sharing the edge (b_k, c_k), consecutive diamonds sharing the vertex p_k+1 -- next to a
    # disjoint K4 / K5 that pads n to 3d + 4 / 3d + 5.  Scanned in label order, the vertices met last are the end
    # points of a shared edge.
    for n in list(range(8, 71)) + [127, 128, 129, 130, 255, 256, 257, 258]:
        q = {0: 0, 1: 4, 2: 5}[n % 3]
        d = (n - q) // 3
        for direction in (1, -1):
            lab = (lambda v: v) if direction == 1 else (lambda v: n - 1 - v)
            es = [[lab(a), lab(b_)] for a, b_ in combinations(range(q), 2)]
            for k in range(d):
                p_, b_, c_ = q + 3 * k, q + 3 * k + 1, q + 3 * k + 2
                nxt = q + 3 * ((k + 1) % d)
                for u, v in ((p_, b_), (p_, c_), (b_, c_), (b_, nxt), (c_, nxt)):
                    es.append([lab(u), lab(v)])
            out.append({"edges": es, "m0": 5, "rng": {"mode": "seed", "seed": seed + n}})
    return out


def run_once(edges, m0, prelude=(), bulk=0, bulk_iter="list", case=None):
    from gcmpy import EECC
    net = EECC()
    if case and case.get("configure_first"):
        net.set_max_clique_size(m0)  # configure, then build
    if bulk:
        # the whole list in one add_edges_from call, some edges listed a second time in the other orientation (the same
        # simple graph)
        lst = [(a, b) for a, b in edges]
        lst += [(b, a) for i, (a, b) in enumerate(edges) if i % bulk == 0 and i > 0]
        feed = {"list": lambda: lst, "iter": lambda: iter(lst), "zip": lambda: zip([a for a, _ in lst], [b for _, b in lst]),
                "gen": lambda: ((a, b) for a, b in lst)}[bulk_iter or "list"]()
        net.add_edges_from(feed)
    else:
        for a, b in edges:
            net.add_edge((a, b))
    # earlier use of the same object under another bound: list the limited cliques, or compute a whole cover
    # (which empties the working graph) and add the edges again
    for op, a in prelude:
        net.set_max_clique_size(a)
        if op == "lmc":
            net.limited_maximal_cliques()
        else:
            net.get_EECC()
            for x, y in edges:
                net.add_edge((x, y))
    if not (case and case.get("configure_first") and not prelude):
        net.set_max_clique_size(m0)
    net = clone_point(net, case)  # the configured object may be copied / pickled before the cover is computed
    cover = net.get_EECC()
    return net, cover


def validate(edges, m0, net, cover):
    import networkx as nx
    G = nx.Graph()
    G.add_edges_from(map(tuple, edges))
    if not isinstance(cover, list):
        raise Violation("return-type", f"get_EECC returned {type(cover).__name__}")
    seen = {}
    for c in cover:
        c = list(c)
        if len(set(c)) != len(c) or not 2 <= len(c) <= m0:
            raise Violation("element-size", f"cover element {c} does not have between 2 and m0={m0} distinct vertices")
        for p in combinations(c, 2):
            if not G.has_edge(*p):
                raise Violation("not-a-clique", f"cover element {c}: {p} is not an edge of the input graph")
            f = frozenset(p)
            if f in seen:
                raise Violation("edge-covered-twice", f"edge {sorted(f)} lies in cover elements {seen[f]} and {c} (m0={m0}); cover {cover}")
            seen[f] = c
    missing = [sorted(e) for e in map(frozenset, G.edges()) if e not in seen]
    if missing:
        raise Violation("edge-uncovered", f"edges {missing} lie in no cover element (m0={m0}); cover {cover}")
    if net.has_edges():
        raise Violation("working-graph-not-empty", f"has_edges() is still True; remaining {list(net.G.edges())}")
    # intact clause
    maxc = [frozenset(c) for c in nx.find_cliques(G)]
    sets = {frozenset(c) for c in cover}
    for K in maxc:
        if len(K) < 2 or len(K) > m0:
            continue
        shared = any(len(K & L) >= 2 for L in maxc if L != K)
        if not shared and K not in sets:
            raise Violation("maximal-clique-split", f"maximal clique {sorted(K)} (<= m0={m0}, shares no edge with another "
                                                    f"maximal clique) is not returned intact; cover {cover}")
    return maxc


def check(case):
    import networkx as nx
    edges, m0 = case["edges"], case["m0"]
    nE = len({frozenset(e) for e in edges})
    # at most one round per edge; a tie-break may spend one draw per tied candidate (shuffle instead of choice)
    budget = 100 + 50 * nE + 2 * nE * nE
    r = case["rng"]
    classes = set()
    maxc = None
    if r["mode"] == "enum":
        holder = {}

        def outcome():
            net, cover = call("get_EECC", run_once, edges, m0, case.get("prelude") or (), case.get("bulk", 0), case.get("bulk_iter"), case)
            holder["maxc"] = validate(edges, m0, net, cover)
            return tuple(sorted(tuple(sorted(c)) for c in cover))
        try:
            dist, leaves = rng.enumerate_outcomes(outcome, max_leaves=200)
            classes.add("full_tiebreak_tree")
            notes = {"leaves": leaves, "distinct_covers": len(dist)}
        except (OverflowError, rng.Uncontrolled):
            classes.add("sampled_tiebreaks")
            for s in range(20):
                with rng.scripted(ints=[], tail_seed=r["seed"] * 100 + s, budget=budget):
                    try:
                        net, cover = call("get_EECC", run_once, edges, m0, case.get("prelude") or (), case.get("bulk", 0), case.get("bulk_iter"), case)
                    except rng.Budget:
                        raise Violation("non-termination", f"more than {budget} tie-break draws for {nE} edges")
                holder["maxc"] = validate(edges, m0, net, cover)
            notes = {}
        maxc = holder["maxc"]
    else:
        ctx = (rng.scripted(ints=[], tail_seed=r["seed"], budget=budget) if r["mode"] == "seed"
               else rng.scripted(ints=r["ints"], tail_seed=r.get("tail", 0), budget=budget))
        with ctx:
            try:
                net, cover = call("get_EECC", run_once, edges, m0, case.get("prelude") or (), case.get("bulk", 0), case.get("bulk_iter"), case)
            except rng.Budget:
                raise Violation("non-termination", f"more than {budget} tie-break draws for {nE} edges")
        maxc = validate(edges, m0, net, cover)
        notes = {}
        classes.add("rng_" + r["mode"])
    big_shared = any(len(K) > m0 and any(len(K & L) >= 2 for L in maxc if L != K) for K in maxc)
    overlapping = sum(1 for K in maxc if len(K) >= 3 and any(len(K & L) >= 2 and len(L) >= 3 for L in maxc if L != K)) >= 2
    omega = max(len(K) for K in maxc)
    classes.add("m0_below_clique_number" if m0 < omega else ("m0_at_clique_number" if m0 == omega else "m0_above_clique_number"))
    if case.get("prelude"):
        classes.add("object_reused_under_other_bound")
    if case.get("bulk") and case.get("bulk_iter", "list") != "list":
        classes.add("edges_from_one_shot_iterator")

    return {"nontrivial": big_shared or overlapping, "classes": sorted(classes), "notes": notes}
