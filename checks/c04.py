"""C04 -- edge list <-> network conversion loses nothing."""
import copy
import numbers

from hypothesis import strategies as st

from vlib.runner import Violation, call, clone_point
from checks import gcm_common as G

PID = "C04"
RULE = ("(a) edge lists produced by the fast and custom generators on Hypothesis-generated joint degree sequences "
        "(zero-degree vertices, self-loops, repeated pairs arise naturally on small N); (b) synthetic edge lists: N, "
        "arbitrary joint degree tuples, rows (pair, name, id) with self-loops and repeated pairs in both "
        "orientations; forward, backward and round-trip oracles; non-trivial = >= 1 edge and >= 3 vertices; "
        "distinct = distinct canonical JSON")
ASSUMPTIONS = ["for a pair occurring several times in the edge list the statement fixes no winner; nothing is asserted "
               "about which row's name/id the edge carries, only that it is one of them"]
BUDGET = {"quick": (16, 400), "thorough": (16, 15000)}


@st.composite
def synthetic(draw, tier):
    N = draw(st.integers(1, 10 if tier == "quick" else 25))
    T = draw(st.integers(1, 3))
    jds = [[draw(st.integers(0, 4)) for _ in range(T)] for _ in range(N)]
    lo = draw(st.integers(0, N - 1))
    hi = draw(st.integers(lo, N - 1))
    if draw(st.booleans()):
        lo, hi = 0, N - 1
    v = st.integers(lo, hi)
    # topology names are arbitrary labels: strings, ints, None, values that print alike (2 and "2"), and objects that
    # compare by identity (encoded as {"obj": k}; one instance per k and case)
    # ... and names that are containers themselves ({"tup": [...]} stands for a tuple, {"fs": [...]} for a frozenset)
    pool = G.NAME_POOL + [2, "2", None, "None", 0, "0", {"obj": 1}, {"obj": 2},
                          {"tup": ["clique", 2]}, {"tup": ["clique", 3]}, {"tup": []}, {"tup": ["a"]}, {"fs": [1, 2]},
                          # members of a caller's Enum (the library keeps its own names in Enums too): a member is not its value
                          {"enum": "TIE"}, {"enum": "TRIANGLE"}, "2-clique"]
    rows = draw(st.lists(st.tuples(v, v, st.sampled_from(pool), st.integers(0, 6)), max_size=15))
    return {"synthetic": True, "N": N, "jds": jds, "rows": [list(r) for r in rows],
            # read-only queries on the converted network between the two conversions
            "queries": draw(st.sampled_from([False, False, True])),
            "debug_logging": draw(st.sampled_from([False, False, False, True]))}


import enum


class CallerTopology(enum.Enum):
    TIE = "2-clique"
    TRIANGLE = "3-clique"


def strategy(tier):
    gen = st.tuples(G.gcm_case(tier, algos=("fast", "motifs")), st.sampled_from([False, False, False, True])).map(
        lambda t: {**t[0], "debug_logging": t[1]})
    return st.one_of(synthetic(tier), gen)


class debug_logging:
    """the process has verbose logging switched on (root logger at DEBUG, records discarded): a configuration of the
    host application, not of the conversion"""
    def __init__(self, on):
        self.on = on

    def __enter__(self):
        import logging
        if self.on:
            self.root = logging.getLogger()
            self.level = self.root.level
            self.handler = logging.NullHandler()
            self.root.addHandler(self.handler)
            self.root.setLevel(logging.DEBUG)

    def __exit__(self, *a):
        if self.on:
            self.root.setLevel(self.level)
            self.root.removeHandler(self.handler)


def enumerated(tier, seed):
    """one large generator-produced edge list (300000 rows): block / chunk boundaries of a conversion lie far beyond
    the generated sizes."""
    mo = {"kind": "clique", "m": 2, "edges": [], "ret": "list", "orbit_sizes": [2], "cols": [0], "names": "2-clique"}
    out = [{"algo": "fast", "path": "class", "N": 150000, "big": 4, "motifs": [mo], "rng": {"mode": "seed", "seed": seed}}]
    # more than 2**20 vertices, a handful of rows whose pairs collide when two labels are packed into one integer
    # with 16 or 20 bits per label (in either order), or hashed by sum / xor
    B = 2 ** 20
    rows = [[0, B + 5, "a", 0], [1, 5, "b", 1], [B + 7, 0, "c", 2], [7, 1, "d", 3], [0, 2 ** 16 + 9, "e", 4], [1, 9, "f", 5],
            [3, B + 2, "g", 6], [B + 3, 2, "h", 7], [B, B + 1, "i", 8], [B + 1, B + 4, "j", 9]]
    out.append({"synthetic": True, "N": B + 8, "jds_fill": [1, 0], "rows": rows})
    return out


ENUM_CHUNK = 1


def snapshot(Gx):
    cp = dict  # shallow: attribute values are immutable scalars / tuples, or labels that compare by identity
    return ({n: cp(d) for n, d in Gx.nodes(data=True)},
            {frozenset((u, v)): cp(d) for u, v, d in Gx.edges(data=True)})


def check(case):
    from gcmpy import LightWeightEdgeList, EdgeListToNetwork, NetworkToEdgeList, NetworkNames as NN
    if case.get("synthetic"):
        el = LightWeightEdgeList()
        jds = [tuple(r) for r in case["jds"]] if "jds" in case else [tuple(case["jds_fill"])] * case["N"]
        el.joint_degrees = list(jds)
        el.edge_list = [(a, b) for a, b, _, _ in case["rows"]]
        objs = {}

        class Label:  # compares and hashes by identity
            def __init__(self, k):
                self.k = k

            def __repr__(self):
                return f"<Label {self.k}>"
        def nm(n):
            if not isinstance(n, dict):
                return n
            if "tup" in n:
                return tuple(n["tup"])
            if "fs" in n:
                return frozenset(n["fs"])
            if "enum" in n:
                return CallerTopology[n["enum"]]
            return objs.setdefault(n["obj"], Label(n["obj"]))
        el.topologies = [nm(n) for _, _, n, _ in case["rows"]]
        el.motif_id = [i for _, _, _, i in case["rows"]]
        classes = {"synthetic"}
        if case["N"] > 2 ** 20:
            classes.add("million_vertices")
    else:
        if case.get("big") and "jds" not in case:
            case = {**case, "jds": [[case["big"]]] * case["N"]}
        for mo in case["motifs"]:
            mo["etype"] = "tuple"  # edge entries are documented as tuples; list-typed pairs are outside this property
            mo.pop("return_argument", None)
        g, cls, el, journal, jds, pristine = G.generate(case)
        classes = {"generated", "algo_" + case["algo"]}
        wf = (len(el.edge_list) == len(el.topologies) == len(el.motif_id)) and all(
            isinstance(e, (tuple, list)) and len(e) == 2 and all(isinstance(x, numbers.Integral) for x in e) for e in el.edge_list)
        if not wf:
            # malformed generator output is C02's finding; the conversion property is not evaluable on it
            return {"nontrivial": False, "classes": ["malformed_generator_output"]}
    N = len(jds)
    rows = [(tuple(e), n, i) for e, n, i in zip(el.edge_list, el.topologies, el.motif_id)]
    before = (list(el.edge_list), list(el.topologies), list(el.motif_id), list(el.joint_degrees))
    dbg = bool(case.get("debug_logging"))
    if dbg:
        classes.add("debug_logging_enabled")
    with debug_logging(dbg):
        net = call("forward", EdgeListToNetwork.convert, el)
    if before != (list(el.edge_list), list(el.topologies), list(el.motif_id), list(el.joint_degrees)):
        raise Violation("forward-mutates-input", "the edge list was modified by the conversion")
    Gx = net.G
    # ---- forward
    if set(Gx.nodes()) != set(range(N)) or Gx.number_of_nodes() != N:
        raise Violation("fwd-node-set", f"nodes {sorted(Gx.nodes())} != one vertex per joint degree entry 0..{N - 1}")
    for v in range(N):
        jd = Gx.nodes[v].get(NN.JOINT_DEGREE)
        if jd is None or tuple(jd) != jds[v]:
            raise Violation("fwd-node-annotation", f"vertex {v} annotated {jd!r}, joint degree {jds[v]}")
    pairs = {}
    for e, n, i in rows:
        pairs.setdefault(frozenset(e), []).append((n, i))
    got_pairs = {frozenset((u, v)) for u, v in Gx.edges()}
    if got_pairs != set(pairs):
        diff = sorted(map(sorted, got_pairs ^ set(pairs)))
        raise Violation("fwd-edge-set", f"network pairs differ from the edge list pairs in {len(diff)} pair(s), e.g. {diff[:6]} "
                                        f"({len(got_pairs)} network edges, {len(pairs)} distinct listed pairs)")
    for u, v, d in Gx.edges(data=True):
        cands = pairs[frozenset((u, v))]
        tup = (d.get(NN.TOPOLOGY), d.get(NN.MOTIF_IDS))
        if NN.TOPOLOGY not in d or NN.MOTIF_IDS not in d:
            raise Violation("fwd-edge-attr-missing", f"edge {(u, v)} lacks topology / motif id: {d}")
        if len(cands) == 1 and tup != cands[0]:
            raise Violation("fwd-edge-attr", f"edge {(u, v)} carries {tup}, its only row says {cands[0]}")
        if tup not in cands:
            raise Violation("fwd-edge-attr-mixed", f"edge {(u, v)} carries {tup}, a mixture of rows {cands}")
    if any(len(set(p)) == 1 for p in pairs):
        classes.add("self_loop")
    if any(len(c) > 1 for c in pairs.values()):
        classes.add("repeated_pair")
    if any(Gx.degree(v) == 0 for v in range(N)):
        classes.add("isolated_vertex")
    # ---- backward (possibly on a copy / pickle round trip of the converted network)
    net = clone_point(net, case)
    Gx = net.G
    snap = snapshot(Gx)
    if case.get("queries"):
        # asking the network object questions (its cliques, whether it has edges) changes nothing
        call("query-find_cliques", lambda: list(net.find_cliques()))
        call("query-has_edges", net.has_edges)
        if snapshot(Gx) != snap:
            raise Violation("query-mutates-network", f"find_cliques() / has_edges() modified the converted network: {snap} -> {snapshot(Gx)}")
        classes.add("queried_between_conversions")
    with debug_logging(dbg):
        back = call("backward", NetworkToEdgeList.convert, net)
    if snapshot(Gx) != snap:
        raise Violation("backward-mutates-input", "the network was modified by the reverse conversion")
    if [tuple(x) for x in back.joint_degrees] != jds:
        raise Violation("bwd-jds", f"reverse conversion joint_degrees {back.joint_degrees} != {jds}")
    if not (len(back.edge_list) == len(back.topologies) == len(back.motif_id)):
        raise Violation("bwd-columns", "reverse conversion columns not parallel")
    rk = lambda t: (t[0], repr(t[1]), repr(t[2]))
    got = sorted(((sorted(e), n, i) for e, n, i in zip(back.edge_list, back.topologies, back.motif_id)), key=rk)
    want = sorted(((sorted(p), d[NN.TOPOLOGY], d[NN.MOTIF_IDS]) for p, d in
                   ((tuple(p) if len(p) == 2 else tuple(p) * 2, d) for p, d in snap[1].items())), key=rk)
    if got != want:
        raise Violation("bwd-edge-set", f"reverse conversion rows {got} != annotated network edges {want}")
    # ---- round trip
    with debug_logging(dbg):
        net2 = call("roundtrip", EdgeListToNetwork.convert, back)
    if snapshot(net2.G) != snap:
        raise Violation("roundtrip", f"EdgeListToNetwork(NetworkToEdgeList(net)) differs from net: {snapshot(net2.G)} vs {snap}")
    return {"nontrivial": len(rows) >= 1 and N >= 3, "classes": sorted(classes)}
