"""C19 -- built-in degree distributions are the probability mass functions they name."""
from hypothesis import strategies as st

from vlib.runner import Violation, call, clone_point

PID = "C19"
RULE = ("Hypothesis-generated parameters (exponential a in (0.01,3000] (floats and ints); Poisson mean in (0,1000] (floats and ints), k up to 1000; integer-typed exponents; power law alpha in "
        "[2,8]; cut-off power law alpha in [2,6], kappa in [0.01,2000]) x degrees k over the support (Python and numpy "
        "ints); oracle = mpmath closed forms at 40 digits (zeta, polylog) within the series-truncation tolerance "
        "derived from the code's stopping rule; non-negativity; partial sums + analytic tail = 1. Non-trivial = "
        "k >= 2 and parameter off the grid used by the suite; distinct = distinct canonical JSON")
ASSUMPTIONS = ["tolerance for the two series-normalised laws: relative error <= 1.05*tail/normaliser + 1e-11 where tail = the "
               "exact sum of all series terms from the first term below 1e-6 onwards (whatever a truncation at 1e-6 may "
               "drop, whether or not the first small term itself is kept); 1e-11 for the closed forms"]
BUDGET = {"quick": (16, 150), "thorough": (16, 6000)}


def strategy(tier):
    ks = st.lists(st.integers(0, 60), min_size=1, max_size=6)
    bigk = st.lists(st.one_of(st.integers(0, 100), st.integers(100, 10000)), min_size=1, max_size=6)
    return st.one_of(
        st.fixed_dictionaries({"dist": st.just("exponential"), "a": st.one_of(st.floats(0.01, 10.0), st.floats(0.01, 10.0), st.floats(10.0, 3000.0), st.integers(1, 2000)), "ks": bigk, "np": st.sampled_from([False, False, "int64", "uint64", "uint16", "int32", "float", "float64"]), "refused_first": st.sampled_from([False, False, True])}),
        st.fixed_dictionaries({"dist": st.just("poisson"), "m": st.one_of(st.floats(0.01, 20.0), st.floats(20.0, 1000.0), st.integers(1, 300)), "ks": st.lists(st.one_of(st.integers(0, 100), st.integers(100, 1000)), min_size=1, max_size=6), "np": st.sampled_from([False, False, "int64", "uint64", "uint16", "int32", "float", "float64"]), "refused_first": st.sampled_from([False, False, True])}),
        st.fixed_dictionaries({"dist": st.just("power_law"), "alpha": st.one_of(st.floats(2.0, 8.0), st.integers(2, 12)), "ks": bigk, "np": st.sampled_from([False, False, "int64", "uint64", "uint16", "int32", "float", "float64"])}),
        st.fixed_dictionaries({"dist": st.just("cutoff"), "alpha": st.one_of(st.floats(2.0, 6.0), st.integers(2, 8)),
                               "kappa": st.one_of(st.floats(0.01, 0.2), st.floats(0.1, 20.0), st.floats(20.0, 2000.0)), "ks": bigk, "np": st.sampled_from([False, False, "int64", "uint64", "uint16", "int32", "float", "float64"])}),
    )


def enumerated(tier, seed):
    """steep laws far out in the tail: the value is a (possibly sub-normal or zero) probability, never an exception --
    k**alpha itself is beyond the double range here, k**-alpha is not"""
    out = []
    for alpha, ks in ((60, [1, 2, 1000, 10 ** 6]), (60.0, [10 ** 6, 10 ** 5]), (100, [1, 1211, 5000]), (20.0, [3, 10 ** 16]),
                      (3.5, [10 ** 90, 7]), (12, [10 ** 26, 2])):
        out.append({"dist": "power_law", "alpha": alpha, "ks": ks, "np": False})
    for alpha, kappa, ks in ((6, 50.0, [10 ** 60, 2]), (8, 2000.0, [10 ** 40, 3])):
        out.append({"dist": "cutoff", "alpha": alpha, "kappa": kappa, "ks": ks, "np": False})
    return out


def check(case):
    import mpmath as mp
    import numpy as np
    from gcmpy import exponential, poisson, power_law, scale_free_cut_off
    mp.mp.dps = 40
    d = case["dist"]
    ks = list(case["ks"])
    if case.get("refused_first"):
        # the caller first asks for distributions that can not be built (and catches the error)
        for bad in ((scale_free_cut_off, (2.5, 0)), (scale_free_cut_off, (2.0, 1e-320)), (scale_free_cut_off, (2.0, 1e-3))):
            try:
                fbad = bad[0](*bad[1])
                fbad(3)
            except Exception:
                pass
    if d in ("power_law", "cutoff"):
        ks = [max(1, k) for k in ks]
    npk = case.get("np")
    if npk is True:
        npk = "int64"
    # a degree may arrive as a NumPy integer, or as a float with an integral value (np.arange(1.0, n), a column of a
    # float array): it is the same degree
    conv = (lambda k: float(k)) if npk == "float" else ((lambda k: getattr(np, npk)(k)) if npk else (lambda k: k))
    if d == "exponential":
        a = mp.mpf(case["a"])
        f = clone_point(call("factory", exponential, case["a"]), case)
        exact = lambda k: (1 - mp.e ** (-a)) * mp.e ** (-a * k)
        rel = mp.mpf("1e-11")
        tail = lambda M: mp.e ** (-a * (M + 1))
    elif d == "poisson":
        m = mp.mpf(case["m"])
        f = clone_point(call("factory", poisson, case["m"]), case)
        exact = lambda k: mp.e ** (-m) * m ** k / mp.factorial(k)
        rel = mp.mpf("1e-11")
        tail = None
    elif d == "power_law":
        al = mp.mpf(case["alpha"])
        f = clone_point(call("factory", power_law, case["alpha"]), case)
        Z = mp.zeta(al)
        exact = lambda k: mp.mpf(k) ** (-al) / Z
        # first term below the code's stopping threshold; everything from there on may be truncated
        K0 = int(mp.ceil(mp.mpf(10) ** (6 / al)))
        while mp.mpf(K0) ** (-al) >= mp.mpf("1e-6"):
            K0 += 1
        while K0 > 1 and mp.mpf(K0 - 1) ** (-al) < mp.mpf("1e-6"):
            K0 -= 1
        rel = mp.mpf("1.05") * mp.zeta(al, K0) / Z + mp.mpf("1e-11")
        tail = lambda M: mp.zeta(al, M + 1) / Z
    else:
        al, ka = mp.mpf(case["alpha"]), mp.mpf(case["kappa"])
        z = mp.e ** (-1 / ka)
        f = clone_point(call("factory", scale_free_cut_off, case["alpha"], case["kappa"]), case)
        Li = mp.polylog(al, z)
        exact = lambda k: mp.mpf(k) ** (-al) * mp.e ** (-mp.mpf(k) / ka) / Li
        K0, part = 1, mp.mpf(0)
        while z ** K0 / mp.mpf(K0) ** al >= mp.mpf("1e-6"):
            part += z ** K0 / mp.mpf(K0) ** al
            K0 += 1
        rel = mp.mpf("1.05") * (Li - part) / Li + mp.mpf("1e-11")
        tail = None
    worst = 0.0
    for k in ks:
        v = call("evaluate", f, conv(k))
        try:
            v = float(v)
        except Exception:
            raise Violation("value-type", f"{d}({k}) returned {v!r}")
        if not v >= 0:
            raise Violation("negative", f"{d} value {v!r} at k={k}")
        ex = exact(k)
        err = abs(mp.mpf(v) - ex)
        if ex > mp.mpf("1e-290") and err > rel * ex:
            raise Violation("pmf-value", f"{d}{ {x: case[x] for x in case if x not in ('ks', 'np', 'dist')} } at k={k}: "
                                         f"library {v!r}, exact {mp.nstr(ex, 17)}, relative error {mp.nstr(err / ex, 5)} "
                                         f"> tolerance {mp.nstr(rel, 5)}")
        if ex > 0:
            worst = max(worst, float(err / ex))
    # normalisation: partial sum over k <= M plus exact tail
    lo = 0 if d in ("exponential", "poisson") else 1
    M = 200
    if d == "poisson":
        mm = float(case["m"])
        lo = max(0, int(mm - 12 * mm ** 0.5 - 10))
        M = int(mm + 12 * mm ** 0.5 + 40)
    s = mp.mpf(0)
    for k in range(lo, M + 1):
        s += mp.mpf(float(call("evaluate", f, k)))
    if d == "exponential":
        t = tail(M)
    elif d == "poisson":
        t = 1 - sum(exact(k) for k in range(lo, M + 1))  # exact mass outside the window [lo, M]
    elif d == "power_law":
        t = tail(M)
    else:
        t = 1 - sum(exact(k) for k in range(lo, M + 1))
    if abs(s + t - 1) > rel + mp.mpf("1e-9"):
        raise Violation("normalisation", f"{d} {case}: sum_(k<={M}) p(k) + exact tail = {mp.nstr(s + t, 15)}")
    grid = {"a": (0.5, 1.0), "m": (1.0, 2.0, 3.0, 5.0), "alpha": (2.0, 2.5, 3.0), "kappa": (10.0, 100.0)}
    offgrid = all(case[p] not in vals for p, vals in grid.items() if p in case)
    return {"nontrivial": offgrid and any(k >= 2 for k in ks), "classes": ["dist_" + d] + (["numpy_" + str(npk)] if npk else []),
            "notes": {"rel_err_" + d: worst}}
