"""C03 -- stub matching is uniformly random (configuration-model measure).

The library's RNG decision tree is enumerated exhaustively (vlib.rng.enumerate_outcomes), giving the *exact*
distribution (Fractions) of the ordered stub sequences handed to the build callbacks.  Oracle: uniform on the
product over columns of the multiset permutations of that column's stubs.
"""
from fractions import Fraction
from itertools import product
from math import factorial

from hypothesis import strategies as st

from vlib import rng, stats
from vlib.runner import Violation, call
from checks import gcm_common as G

PID = "C03"
RULE = ("(a) exhaustive family: every joint degree sequence with N<=4 (quick) / N<=5 (thorough) vertices, one topology "
        "of size 2 or 3 with <= 6 stubs, or two topologies of sizes in {2,3} with <= 4 stubs each, for the fast and "
        "the custom generator, plus (fast generator) one-topology sequences whose stub count is not a multiple of the motif size; (b) Hypothesis-generated wider shapes (sizes 1..5, <= 4 motifs, multi-orbit custom "
        "motifs, network variant) under a leaf cap; (c) seeded chi-square tests of partner uniformity on 24..40 "
        "degree-1 vertices. For (a),(b) the full RNG decision tree is enumerated and every distinct ordered stub "
        "sequence must have exactly equal probability and all must occur. Plus an entropy bound on 16 degree-1 stubs and an order statistic on two million. Non-trivial = >= 2 distinct outcomes; "
        "distinct = distinct canonical JSON")
ASSUMPTIONS = ["the generators draw randomness only through random.shuffle/choice/randrange of the stdlib module "
               "(otherwise the check falls back to a seeded chi-square test)",
               "uniformity is asserted on ordered slot sequences per column, the literal reading of 'every assignment "
               "of stubs to motif slots is equally likely'"]
BUDGET = {"quick": (16, 60), "thorough": (16, 600)}
EXHAUSTIVE = True
EXHAUSTIVE_NOTE = "family (a) of RULE is enumerated completely, each member with its complete RNG decision tree"
ENUM_CHUNK = 8
LEAF_CAP = {"quick": 5040, "thorough": 40320}
_tier = ["quick"]


def compositions(n, parts):
    if parts == 1:
        yield [n]
        return
    for i in range(n + 1):
        for rest in compositions(n - i, parts - 1):
            yield [i] + rest


def enumerated(tier, seed):
    _tier[0] = tier
    cases = []
    Nmax = 4 if tier == "quick" else 5

    def mk(algo, N, cols, sizes):
        motifs = [{"kind": "clique", "m": s, "edges": [], "ret": "list", "names": f"t{j}" if algo == "fast" else [f"t{j}"] * (s * (s - 1) // 2),
                   "cols": [j], "orbit_sizes": [s]} for j, s in enumerate(sizes)]
        jds = [[c[v] for c in cols] for v in range(N)]
        c = {"algo": algo, "path": "class", "N": N, "jds": jds, "motifs": motifs, "rng": {"mode": "enum"}}
        if algo == "motifs":
            c["indices_type"] = ["list", "tuple", "range"][len(cases) % 3]
        return c

    for algo in ("fast", "motifs"):
        for N in range(1, Nmax + 1):
            for s in (2, 3):
                for n in range(s, 7, s):
                    for c in compositions(n, N):
                        cases.append(mk(algo, N, [c], [s]))
            for s1, s2 in product((2, 3), repeat=2):
                for n1 in range(s1, 5, s1):
                    for n2 in range(s2, 5, s2):
                        for c1 in compositions(n1, N):
                            for c2 in compositions(n2, N):
                                cases.append(mk(algo, N, [c1, c2], [s1, s2]))
    # stub counts that are not a multiple of the motif size (the fast generator then builds a truncated last motif):
    # which stubs end up in it must be uniform as well
    for N in range(1, Nmax + 1):
        for s_ in (2, 3):
            for n in range(1, 7):
                if n % s_:
                    for c in compositions(n, N):
                        cases.append(mk("fast", N, [c], [s_]))
    # the corollary named in the statement: four degree-1 vertices, three perfect matchings, 1/3 each
    for algo in ("fast", "motifs", "network"):
        cases.append({**mk("fast" if algo != "motifs" else "motifs", 4, [[1, 1, 1, 1]], [2]), "algo": algo,
                      "matchings": True})
    # (c') statistical, long stub lists: 4096 degree-1 vertices, partner label block of 64 probe vertices
    cases.append({"stat": True, "blocks": True, "algo": "fast", "M": 4096, "samples": 4 if tier == "quick" else 20,
                  "seed": seed * 1000 + 77})
    # (c'') entropy bound: 16 degree-1 vertices need log2(16!) = 44.3 bits per generation
    for algo in ("fast", "motifs"):
        cases.append({"stat": True, "entropy": True, "algo": algo, "M": 16, "seed": seed * 1000 + 99})
    # (c3) two million degree-1 vertices: within a motif the smaller name comes first exactly half of the time
    # (anything that resolves ties between random keys by name shows only at this scale)
    cases.append({"stat": True, "order": True, "algo": "fast", "M": 2000000, "samples": 1 if tier == "quick" else 3,
                  "seed": seed * 1000 + 88})
    # (c) statistical: partner of vertex 0 among M degree-1 vertices
    for i, M in enumerate((24, 40) if tier == "quick" else (24, 30, 40, 60)):
        for algo in ("fast", "motifs"):
            cases.append({"stat": True, "algo": algo, "M": M, "samples": 3000 if tier == "quick" else 20000,
                          "seed": seed * 1000 + i})
    return cases


def strategy(tier):
    _tier[0] = tier
    # stubs per column are capped so that the decision tree stays enumerable
    return G.gcm_case(tier, algos=("fast", "motifs", "motifs", "network"), max_leaf_stubs=5, rng_modes=("seed",)).map(
        lambda c: {**c, "rng": {"mode": "enum"}})


def n_leaves(case):
    tot = 1
    for col in zip(*case["jds"]):
        tot *= factorial(sum(col))
    return tot


def outcome_count(case):
    tot = 1
    for col in zip(*case["jds"]):
        c = factorial(sum(col))
        for d in col:
            c //= factorial(d)
        tot *= c
    return tot


def expected_law(jds, full):
    """Exact law of the ordered stub sequences filling the complete motifs, column by column independent: the first
    full[c] entries of a uniformly random ordering of column c's stubs (all entries when the handshake condition
    holds -- then every arrangement has the same probability).  Returns {outcome: Fraction}."""
    cols = []
    for c, L in enumerate(full):
        mult = [r[c] for r in jds]
        n = sum(mult)
        seqs = {(): Fraction(1)}
        for i in range(L):
            nxt = {}
            for seq, p in seqs.items():
                for v, m in enumerate(mult):
                    left = m - seq.count(v)
                    if left > 0:
                        nxt[seq + (v,)] = p * Fraction(left, n - i)
            seqs = nxt
        cols.append(seqs)
    law = {(): Fraction(1)}
    for seqs in cols:
        law = {o + (seq,): p * q for o, p in law.items() for seq, q in seqs.items()}
    return law


def stat_check(case):
    from gcmpy import GCMAlgorithmNames as GN, GCMAlgorithmFast, GCMAlgorithmCustomMotifs, clique_motif
    M = case["M"]
    jds = [(1,)] * M
    calls = []

    def recording_clique(vs):  # the motif slot of a vertex = the build call it is handed to (not its row in the output)
        calls.append(tuple(vs))
        return clique_motif(vs)
    params = {GN.MOTIF_SIZES: [2], GN.BUILD_FUNCTIONS: [recording_clique]}
    if case["algo"] == "fast":
        params[GN.EDGE_NAMES] = ["e"]
        g = GCMAlgorithmFast(params)
    else:
        params[GN.EDGE_NAMES] = [lambda: ["e"]]
        params[GN.MOTIF_INDICES] = [[0]]
        g = GCMAlgorithmCustomMotifs(params)
    if case.get("entropy"):
        # Information-theoretic form of "no placement is unreachable": a run that drew b bits from the (owned, ideal)
        # random source ends in a leaf of probability 2**-b, so the arrangement it produces has probability >= 2**-b;
        # uniformity over the M! ordered arrangements of M degree-1 stubs needs 2**-b <= 1/M! on every run.  Decided
        # only when the owned source demonstrably drives the outcome (same script -> same outcome, other script ->
        # other outcome); otherwise the case is not applicable.
        from math import factorial, log2
        need = log2(factorial(M))
        runs = []
        for k in range(3):
            for rep in range(2):
                del calls[:]
                with rng.scripted(tail_seed=case["seed"] * 10 + k) as info:
                    call("generate", g.random_clustered_graph, list(jds))
                runs.append((k, tuple(calls), info.entropy_bits))
        same = all(runs[2 * k][1] == runs[2 * k + 1][1] for k in range(3))
        differ = len({runs[2 * k][1] for k in range(3)}) == 3
        if not (same and differ):
            return {"nontrivial": False, "classes": ["entropy_not_applicable"]}
        low = min(r[2] for r in runs)
        if low < need - 1e-6:
            raise Violation("entropy", f"{M} degree-1 vertices: one generation drew {low:.1f} bits from the random source, "
                                       f"but making all {M}! stub arrangements equally likely needs {need:.1f} bits per run: "
                                       f"most placements are unreachable")
        return {"nontrivial": True, "classes": ["statistical", "entropy_bound"], "notes": {"bits_drawn": low, "bits_needed": need}}
    if case.get("order"):
        lt = tot = 0
        with rng.seeded(case["seed"]):
            for _ in range(case["samples"]):
                del calls[:]
                call("generate", g.random_clustered_graph, list(jds))
                lt += sum(1 for a, b in calls if a < b)
                tot += len(calls)
        del calls[:]
        z = (lt - tot / 2) / (tot / 4) ** 0.5
        if abs(z) > 6.5:
            raise Violation("stat-order", f"{M} degree-1 vertices: in {lt} of {tot} motifs the smaller name fills the first slot (z = {z:.1f}): "
                                          f"the order of two stubs within a motif depends on their names")
        return {"nontrivial": True, "classes": ["statistical", "two_million_stubs"], "notes": {"z_order": abs(z)}}
    if case.get("blocks"):
        nb = 8
        size = M // nb
        probes = list(range(0, M, M // 64))
        obs = [0] * nb
        exp = [0.0] * nb
        with rng.seeded(case["seed"]):
            for _ in range(case["samples"]):
                del calls[:]
                el = call("generate", g.random_clustered_graph, list(jds)).edge_list
                partner = {}
                for a, b in el:
                    partner[a] = b
                    partner[b] = a
                for v in probes:
                    # relative block: how far (in label blocks) the partner lies from v
                    obs[(partner[v] // size - v // size) % nb] += 1
                    for d in range(nb):
                        exp[d] += (size - (1 if d == 0 else 0)) / (M - 1)
        s1, df1, p1 = stats.chi2_test(obs, exp)
        if p1 < stats.ALPHA:
            raise Violation("stat-partner-block", f"{M} degree-1 vertices: label-block distance of the partner of 64 probe "
                                                  f"vertices is not uniform: observed {obs}, expected {[round(e, 1) for e in exp]}, "
                                                  f"chi2={s1:.1f} df={df1} p={p1:.3g}")
        return {"nontrivial": True, "classes": ["statistical", "long_stub_list"], "notes": {"p_partner_block": p1}}
    counts = [0] * M
    slot = [0] * (M // 2)
    with rng.seeded(case["seed"]):
        for _ in range(case["samples"]):
            del calls[:]
            el = call("generate", g.random_clustered_graph, list(jds)).edge_list
            for a, b in el:
                if a == 0 or b == 0:
                    counts[a + b] += 1
            for i, vs in enumerate(calls):
                if 0 in vs and i < len(slot):
                    slot[i] += 1
    obs = counts[1:]
    exp = [case["samples"] / (M - 1)] * (M - 1)
    s1, df1, p1 = stats.chi2_test(obs, exp)
    s2, df2, p2 = stats.chi2_test(slot, [case["samples"] / (M // 2)] * (M // 2))
    if p1 < stats.ALPHA:
        raise Violation("stat-partner", f"partner of vertex 0 among {M} degree-1 vertices not uniform: chi2={s1:.1f} df={df1} p={p1:.3g} counts={obs}")
    if p2 < stats.ALPHA:
        raise Violation("stat-slot", f"motif slot of vertex 0 not uniform: chi2={s2:.1f} df={df2} p={p2:.3g} counts={slot}")
    return {"nontrivial": True, "classes": ["statistical"], "notes": {"p_partner": p1, "p_slot": p2}}


def check(case):
    if case.get("stat"):
        return stat_check(case)
    cap = LEAF_CAP[_tier[0]]
    if n_leaves(case) > cap:
        return {"nontrivial": False, "classes": ["over_leaf_cap"]}
    journal = []
    g, cls = G.build(case, journal)
    jds = [tuple(r) for r in case["jds"]]
    nc = G.ncols(case)
    colpos = {}
    for j, mo in enumerate(case["motifs"]):
        off = 0
        for c, s in zip(mo["cols"], mo["orbit_sizes"]):
            colpos[(j, c)] = (off, off + s)
            off += s

    sizes_tot = [sum(mo["orbit_sizes"]) for mo in case["motifs"]]
    orbit_of_col = {}
    for j, mo in enumerate(case["motifs"]):
        for c, s in zip(mo["cols"], mo["orbit_sizes"]):
            orbit_of_col[c] = s
    # number of stubs of column c that fit into complete motifs (all of them when the handshake condition holds)
    full = [(sum(r[c] for r in jds) // orbit_of_col[c]) * orbit_of_col[c] if c in orbit_of_col else 0 for c in range(nc)]

    def outcome():
        del journal[:]
        call("generate", g.random_clustered_graph, list(jds))
        seqs = [[] for _ in range(nc)]
        for j, vs, _ in journal:
            if len(vs) != sizes_tot[j]:
                continue  # a truncated last group (stub count not a multiple of the motif size) is not a motif
            for c in case["motifs"][j]["cols"]:
                a, b = colpos[(j, c)]
                seqs[c].extend(vs[a:b])
        return tuple(tuple(s) for s in seqs)

    law = expected_law(jds, full)
    want_n = len(law)
    classes = set(G.classes_of(case)) - {"scripted_rng", "path_class", "path_factory", "path_main_enum", "path_main_str"}
    if any(f != sum(r[c] for r in jds) for c, f in enumerate(full) if c in orbit_of_col):
        classes.add("leftover_stubs")
    try:
        dist, leaves = rng.enumerate_outcomes(outcome, max_leaves=cap * 2)
    except (rng.Uncontrolled, OverflowError):
        # RNG source not enumerable any more (float source, or far more integer draws than one shuffle per column
        # needs): seeded sampling + chi-square against the same law
        classes.add("fallback_sampling")
        if want_n > 2000:
            return {"nontrivial": False, "classes": sorted(classes)}
        n = 200 * want_n
        cnt = {}
        with rng.seeded(want_n):
            for _ in range(n):
                o = outcome()
                cnt[o] = cnt.get(o, 0) + 1
        bad = [o for o in cnt if o not in law]
        if bad:
            raise Violation("not-a-stub-arrangement", f"callbacks received {bad[0]} for jds={case['jds']}")
        keys = sorted(law)
        s, df, p = stats.chi2_test([cnt.get(o, 0) for o in keys], [n * float(law[o]) for o in keys])
        if p < stats.ALPHA:
            raise Violation("stat-nonuniform", f"sampled placements do not follow the uniform-matching law: chi2={s:.1f} df={df} p={p:.3g}")
        return {"nontrivial": want_n >= 2, "classes": sorted(classes)}
    # every outcome must be an arrangement of the column's stubs into its complete motifs
    for o in dist:
        if o not in law:
            raise Violation("not-a-stub-arrangement", f"callbacks received {o}; jds={case['jds']} sizes={G.motif_sizes(case)}")
    if len(dist) != want_n:
        missing = want_n - len(dist)
        raise Violation("unreachable-placement", f"{len(dist)} of the {want_n} stub-to-slot assignments are reachable "
                                                 f"({missing} unreachable); jds={case['jds']} sizes={G.motif_sizes(case)}")
    bad = [(o, p, law[o]) for o, p in dist.items() if p != law[o]]
    if bad:
        o, p, w = max(bad, key=lambda t: abs(t[1] - t[2]))
        raise Violation("non-uniform", f"placements are not equally likely: {o} has probability {p}, uniform stub "
                                       f"matching gives {w}; jds={case['jds']}")
    if case.get("matchings"):
        m = {}
        for o, p in dist.items():
            seq = o[0]
            key = frozenset(frozenset(seq[i:i + 2]) for i in range(0, 4, 2))
            m[key] = m.get(key, 0) + p
        if len(m) != 3 or any(p != Fraction(1, 3) for p in m.values()):
            raise Violation("matchings", f"four degree-1 vertices: perfect matchings have probabilities {sorted(m.values())}")
        classes.add("three_matchings")
    return {"nontrivial": want_n >= 2, "classes": sorted(classes), "notes": {"leaves": leaves, "outcomes": want_n}}
