"""C06 -- manual, empirical, marginal and function loaders yield the documented law."""
import itertools

from hypothesis import strategies as st

from vlib import rng, stats
from vlib.runner import Violation, call, clone_point

PID = "C06"
RULE = ("Hypothesis-generated loader inputs: manual dicts; empirical sequences with repeats; marginal loaders with "
        "1..3 marginals (generated positive tables or the library's exponential / poisson / power_law / "
        "scale_free_cut_off) over generated bounds, direct and sampling mode; joint function tables over a box; each "
        "through the class constructor and through JointDegreeDistribution.load_joint_degree (type as enum or "
        "string). Oracle: closed-form tables (rel. 1e-9), chi-square (p<1e-9) for sampling mode. Non-trivial = "
        "support of >= 2 points with unequal masses; distinct = distinct canonical JSON")
ASSUMPTIONS = ["the upper degree bound may be read as exclusive or inclusive (the statement only says 'inside the given "
               "bounds'; the pinned direct and sampling modes disagree), consistently within one loader result",
               "function / marginal results are compared after normalising both sides"]
BUDGET = {"quick": (16, 200), "thorough": (16, 8000)}
TOL = 1e-9


def marginal_spec():
    # "tiny": residues (mod 3) of the degrees whose table value is scaled by 1e-9 -- a marginal may put (almost)
    # no mass on some degrees of its range, the lower bound included
    table = st.fixed_dictionaries({"kind": st.just("table"), "seed": st.integers(0, 10 ** 6),
                                   "tiny": st.sampled_from([[], [], [], [0], [1], [0, 2]])})
    lib = st.one_of(
        st.fixed_dictionaries({"kind": st.just("exponential"), "a": st.floats(0.05, 3.0)}),
        st.fixed_dictionaries({"kind": st.just("poisson"), "m": st.floats(0.2, 8.0)}),
        st.fixed_dictionaries({"kind": st.just("power_law"), "alpha": st.floats(2.0, 4.0)}),
        st.fixed_dictionaries({"kind": st.just("cutoff"), "alpha": st.floats(2.0, 4.0), "kappa": st.floats(0.5, 50.0)}),
    )
    return st.one_of(table, table, lib)


@st.composite
def case_strategy(draw, tier):
    loader = draw(st.sampled_from(["manual", "empirical", "function", "marginal", "marginal", "marginal_sampling"]))
    path = draw(st.sampled_from(["class", "dispatch_enum", "dispatch_str"]))
    T = draw(st.integers(1, 3))
    sizes = [draw(st.integers(1, 5)) for _ in range(T)]
    c = {"loader": loader, "path": path, "sizes": sizes, "seed": draw(st.integers(0, 2 ** 31))}
    jd = st.tuples(*[st.integers(0, 6)] * T)
    if loader == "manual":
        keys = draw(st.lists(jd, min_size=1, max_size=8, unique=True))
        c["jdd"] = [[list(k), draw(st.floats(0.0, 3.0))] for k in keys]
    elif loader == "empirical":
        pool = draw(st.lists(jd, min_size=1, max_size=5, unique=True))
        c["jds"] = [list(draw(st.sampled_from(pool))) for _ in range(draw(st.integers(1, 30)))]
    else:
        bounds = []
        for _ in range(T):
            lo = draw(st.integers(0, 4))
            hi = lo + draw(st.integers(1, 5 if T < 3 else 3))
            bounds.append([lo, hi])
        c["bounds"] = bounds
        if loader == "function":
            c["fseed"] = draw(st.integers(0, 10 ** 6))
            if draw(st.booleans()):
                # an earlier function loader with another joint function on an overlapping box, same process
                c["earlier_fseed"] = draw(st.integers(0, 10 ** 6))
        else:
            ms = [draw(marginal_spec()) for _ in range(T)]
            for m, b in zip(ms, bounds):
                if m["kind"] in ("power_law", "cutoff") and b[0] < 1:
                    b[0] += 1
                    b[1] += 1
            if T >= 2 and draw(st.integers(0, 2)) == 0:
                # the same callable object and the same bounds for every topology
                ms = [ms[0]] * T
                c["bounds"] = bounds = [list(bounds[0]) for _ in range(T)]
                if ms[0]["kind"] in ("power_law", "cutoff") and bounds[0][0] < 1:
                    c["bounds"] = bounds = [[b[0] + 1, b[1] + 1] for b in bounds]
                c["share_callable"] = True
            c["marginals"] = ms
            if loader == "marginal_sampling":
                c["n_samples"] = 20000
                if T >= 2 and draw(st.integers(0, 2)) == 2 and all(m["kind"] == "table" for m in ms):
                    # one topology with a wide degree range (beyond 255), the others narrow and starting higher
                    c["bounds"][0] = [0, draw(st.integers(260, 320))]
                    for b in c["bounds"][1:]:
                        b[0], b[1] = 2, 2 + draw(st.integers(1, 2))
    return c


def strategy(tier):
    return case_strategy(tier)


def enumerated(tier, seed):
    """fixed shapes that the generator only produces now and then: wide sampled bounds (beyond 255), the same callable
    for all topologies, three unequal marginals in direct mode, equal motif sizes with different marginals."""
    t = lambda s_, tiny=(): {"kind": "table", "seed": s_, "tiny": list(tiny)}
    out = []
    for path in ("class", "dispatch_str"):
        out.append({"loader": "marginal_sampling", "path": path, "sizes": [2, 3], "seed": seed + 1, "n_samples": 20000,
                    "bounds": [[0, 300], [2, 4]], "marginals": [t(11), t(12)]})
        out.append({"loader": "marginal_sampling", "path": path, "sizes": [2, 2], "seed": seed + 2, "n_samples": 20000,
                    "bounds": [[1, 5], [1, 5]], "marginals": [t(13), t(13)], "share_callable": True})
        out.append({"loader": "marginal_sampling", "path": path, "sizes": [2, 3], "seed": seed + 3, "n_samples": 20000,
                    "bounds": [[0, 6], [0, 4]], "marginals": [t(14, (0,)), t(15)]})
        out.append({"loader": "marginal", "path": path, "sizes": [2, 4, 4], "seed": seed + 4,
                    "bounds": [[0, 3], [0, 2], [0, 4]], "marginals": [{"kind": "poisson", "m": 2.0}, {"kind": "poisson", "m": 1.0},
                                                                      {"kind": "poisson", "m": 0.3}]})
    # many samples, counts that are neither small nor round (the distribution is count / n_samples whatever n is)
    for i, n in enumerate((150000, 250001, 65537)):
        out.append({"loader": "marginal_sampling", "path": "class" if i % 2 else "dispatch_enum", "sizes": [2, 3], "seed": seed + 30 + i,
                    "n_samples": n, "bounds": [[0, 3], [1, 2]], "marginals": [t(31 + i), t(41 + i)]})
    # genuine probability mass functions on bounds that hold all but 1e-7 .. 1e-12 of their mass: the result is still
    # the *normalised* product (sums to 1 to rounding), not the raw one
    for i, (m1, b1, m2, b2) in enumerate([(2.5, [0, 15], 1.0, [0, 12]), (1.0, [0, 11], 0.5, [0, 9]), (4.0, [0, 22], 0.3, [0, 7])]):
        out.append({"loader": "marginal", "path": "class" if i % 2 else "dispatch_str", "sizes": [2, 3], "seed": seed + 50 + i,
                    "bounds": [b1, b2], "marginals": [{"kind": "poisson", "m": m1}, {"kind": "poisson", "m": m2}]})
    out.append({"loader": "marginal", "path": "class", "sizes": [2], "seed": seed + 54, "bounds": [[0, 21]],
                "marginals": [{"kind": "exponential", "a": 0.6931471805599453}]})
    # a joint function written in exact integer arithmetic on the degrees it is handed (wide box: 3**k exceeds 2**63)
    for path in ("class", "dispatch_str"):
        out.append({"loader": "function", "path": path, "sizes": [2, 3], "seed": seed + 6, "fkind": "intpow",
                    "bounds": [[0, 45], [0, 3]]})
    # a large direct-mode box (3 x 64 degrees = 262144 joint degrees): still the exact normalised product
    out.append({"loader": "marginal", "path": "class", "sizes": [2, 3, 4], "seed": seed + 5,
                "bounds": [[0, 64], [0, 64], [0, 64]], "marginals": [t(21), t(22), t(23)]})
    return out


def intpow(jd):
    """a joint function in exact integer arithmetic: 3**-(k1 + 2 k2 + ...) (unnormalised)"""
    e = 0
    for i, k in enumerate(jd):
        e = e + (i + 1) * k
    return 1 / 3 ** e


def positive(seed, *idx):
    """deterministic positive pseudo-random value in [0.05, 1.05) for a table entry."""
    import hashlib
    h = hashlib.sha256(repr((seed,) + tuple(idx)).encode()).digest()
    return 0.05 + int.from_bytes(h[:6], "big") / 2 ** 48


def make_marginal(spec):
    from gcmpy import exponential, poisson, power_law, scale_free_cut_off
    k = spec["kind"]
    if k == "table":
        tiny = set(spec.get("tiny") or [])
        return lambda d, s=spec["seed"]: positive(s, int(d)) * (1e-9 if int(d) % 3 in tiny else 1.0)
    if k == "exponential":
        return exponential(spec["a"])
    if k == "poisson":
        return poisson(spec["m"])
    if k == "power_law":
        return power_law(spec["alpha"])
    return scale_free_cut_off(spec["alpha"], spec["kappa"])


def build(case):
    from gcmpy import (JointDegreeNames as JN, JointDegreeManual, JointDegreeEmpirical, JointDegreeFunction,
                       JointDegreeMarginal, JointDegreeDistribution, JointDegreeType)
    ld = case["loader"]
    p = {JN.MOTIF_SIZES: list(case["sizes"])}
    if ld == "manual":
        given = {tuple(k): w for k, w in case["jdd"]}
        p[JN.JDD] = given
        cls, typ = JointDegreeManual, JointDegreeType.MANUAL
    elif ld == "empirical":
        p[JN.JDS] = [tuple(x) for x in case["jds"]]
        cls, typ = JointDegreeEmpirical, JointDegreeType.EMPIRICAL
    elif ld == "function":
        if "earlier_fseed" in case:
            call("construct-earlier", JointDegreeFunction,
                 {JN.MOTIF_SIZES: list(case["sizes"]), JN.LOW_HIGH_DEGREE_BOUND: [tuple(b) for b in case["bounds"]],
                  JN.FP: lambda jd, s=case["earlier_fseed"]: positive(s, *[int(x) for x in jd])})
        p[JN.FP] = lambda jd, s=case.get("fseed"): positive(s, *[int(x) for x in jd])
        if case.get("fkind") == "intpow":
            p[JN.FP] = intpow
        p[JN.LOW_HIGH_DEGREE_BOUND] = [tuple(b) for b in case["bounds"]]
        cls, typ = JointDegreeFunction, JointDegreeType.JOINT_FUNCTION
    else:
        if case.get("share_callable"):
            f0 = call("marginal-factory", make_marginal, case["marginals"][0])
            p[JN.ARR_FP] = [f0] * len(case["marginals"])
        else:
            p[JN.ARR_FP] = [call("marginal-factory", make_marginal, m) for m in case["marginals"]]
        p[JN.LOW_HIGH_DEGREE_BOUND] = [tuple(b) for b in case["bounds"]]
        if ld == "marginal_sampling":
            p[JN.USE_SAMPLING] = True
            p[JN.N_SAMPLES] = case["n_samples"]
        cls, typ = JointDegreeMarginal, JointDegreeType.MARGINAL
    with rng.seeded(case["seed"]):
        if case["path"] == "class":
            obj = call("construct", cls, p)
        else:
            p[JN.JOINT_DEGREE_TYPE] = typ if case["path"] == "dispatch_enum" else typ.value
            obj = call("dispatch", JointDegreeDistribution.load_joint_degree, p)
    if not isinstance(obj, cls):
        raise Violation("dispatch-class", f"{case['path']} built a {type(obj).__name__} for loader {ld}")
    return clone_point(obj, case), p


def close(a, b):
    return abs(a - b) <= TOL * max(1.0, abs(a), abs(b))


def compare(got, want, what):
    """got, want: dict tuple -> mass; keys with zero mass may be absent on either side."""
    for k in set(got) | set(want):
        g, w = got.get(k, 0.0), want.get(k, 0.0)
        if not close(g, w):
            raise Violation(what, f"mass at {k}: loader {g!r}, documented law {w!r}")


def normalised(d):
    s = sum(d.values())
    return {k: v / s for k, v in d.items()}


def check(case):
    obj, p = build(case)
    from gcmpy import JointDegreeNames as JN
    jdd = obj.jdd
    ld = case["loader"]
    if not isinstance(jdd, dict):
        raise Violation("jdd-type", f".jdd is {type(jdd).__name__}")
    T = len(case["sizes"])
    for k, v in jdd.items():
        if not (isinstance(k, tuple) and len(k) == T):
            raise Violation("key-shape", f"key {k!r} is not a joint degree tuple of arity {T}")
        if not (v >= 0):
            raise Violation("negative-mass", f"mass {v!r} at {k}")
    classes = {"loader_" + ld, "path_" + case["path"]}
    if case.get("share_callable"):
        classes.add("shared_marginal_callable")
    if "earlier_fseed" in case:
        classes.add("earlier_function_loader")
    if ld == "manual":
        want = {tuple(k): w for k, w in case["jdd"]}
        if jdd != want:
            raise Violation("manual", f"manual loader exposes {jdd}, given {want}")
        masses = list(want.values())
    elif ld == "empirical":
        n = len(case["jds"])
        want = {}
        for x in case["jds"]:
            want[tuple(x)] = want.get(tuple(x), 0) + 1
        want = {k: c / n for k, c in want.items()}
        if set(jdd) != set(want):
            raise Violation("empirical-support", f"keys {sorted(jdd)} != observed tuples {sorted(want)}")
        compare(jdd, want, "empirical")
        masses = list(want.values())
    elif ld == "function":
        box = [range(lo, hi + 1) for lo, hi in case["bounds"]]
        if case.get("fkind") == "intpow":
            want = {jd: intpow(jd) for jd in itertools.product(*box)}
            classes.add("integer_arithmetic_joint_function")
        else:
            want = {jd: positive(case["fseed"], *jd) for jd in itertools.product(*box)}
        if set(k for k, v in jdd.items() if v > 0) != set(want):
            raise Violation("function-support", f"support {sorted(jdd)} != whole degree box {case['bounds']} (inclusive)")
        compare(normalised(jdd), normalised(want), "function")
        masses = list(want.values())
    else:
        fs = p[JN.ARR_FP]
        supp = [k for k, v in jdd.items() if v > 0]
        if not supp:
            raise Violation("marginal-empty", "no positive mass")
        if not close(sum(jdd.values()), 1.0):
            raise Violation("marginal-sum", f"masses sum to {sum(jdd.values())!r}")
        for k in supp:
            for x, (lo, hi) in zip(k, case["bounds"]):
                if not lo <= x <= hi:
                    raise Violation("marginal-outside", f"mass at {k} outside bounds {case['bounds']}")

        def law(upper_incl):
            box = [range(lo, hi + (1 if inc else 0)) for (lo, hi), inc in zip(case["bounds"], upper_incl)]
            w = {}
            for jd in itertools.product(*box):
                v = 1.0
                for f, x in zip(fs, jd):
                    v *= float(f(x))
                w[jd] = v
            return normalised(w)
        if ld == "marginal":
            # per topology, the upper end actually present decides how the bound is read
            incl = [max(k[i] for k in supp) == case["bounds"][i][1] for i in range(T)]
            want = law(incl)
            if set(supp) != set(k for k, v in want.items() if v > 0):
                raise Violation("marginal-support", f"support is not the product of ranges inside {case['bounds']}: {sorted(supp)}")
            compare(jdd, want, "marginal-direct")
            masses = list(want.values())
        else:
            n = case["n_samples"]
            ps = []
            for incl in itertools.product([True, False], repeat=T):
                want = law(incl)
                keys = list(want)
                if any(k not in want for k in supp):
                    continue
                obs = [jdd.get(k, 0.0) * n for k in keys]
                exp = [want[k] * n for k in keys]
                s, df, pv = stats.chi2_test(obs, exp)
                ps.append(pv)
            if not ps or max(ps) < stats.ALPHA:
                raise Violation("marginal-sampling", f"sampled distribution is not the product of the marginals on any "
                                                     f"admissible product of ranges: best p={max(ps) if ps else None}")
            want = law([True] * T)
            masses = list(want.values())
            classes.add("statistical")
    # reading the distribution for sampling leaves it as it is (the manual loader still holds the given dictionary,
    # the function loader still the function values): compare a copy taken before with the loader afterwards
    if sum(jdd.values()) > 0:
        before = dict(obj.jdd)
        with rng.seeded(case["seed"] + 7):
            call("sample", obj.sample_jds_from_jdd, 5)
        after = dict(obj.jdd)
        if set(after) != set(before) or any(after[k] != before[k] for k in before):
            chg = [k for k in before if k not in after or after[k] != before[k]][:3]
            raise Violation("changed-by-sampling", f"sampling from the loader changed the distribution it exposes, e.g. at {chg}: "
                                                   f"{[before[k] for k in chg]} -> {[after.get(k) for k in chg]}")
    nt = len(masses) >= 2 and max(masses) - min(masses) > 1e-6
    return {"nontrivial": nt, "classes": sorted(classes)}
