"""C17 -- message passing returns the fixed point of the motif-cover equations."""
from itertools import combinations

from hypothesis import strategies as st

from vlib import oracles
from vlib.runner import Violation, call, clone_point

PID = "C17"
RULE = ("Hypothesis-generated cover-labelled networks (5..10 vertices quick / ..14 thorough, 2..9 motifs: cliques 2..4, "
        "cycles 3..5, chorded cycles incl. diamond and house, pairwise sharing at most one vertex, vertices in no motif "
        "allowed, relabelled ids) x iteration counts (0..40) x query histories of phi (0, 1 and generated) on one "
        "object. Also 5-cliques, topology keys that are not the motif size, and fixed well-connected networks (Fano / AG(2,3) / two Fano planes bridged or disconnected). Oracle: independent reference solver (own membership tables, brute-force motif expectation, Jacobi "
        "sweeps from 0.5 until the sup-change is below 1e-10) compared within 1e-6 where it converged within iterations/4 sweeps; bounds [0,1]; "
        "S(0)=0; monotone in phi at every iteration count; every answer equals a fresh object's answer. Non-trivial = "
        "motif hypergraph has a cycle, >= 2 motif kinds, some queried phi with 0.01 < S < 0.99; distinct = canonical JSON")
ASSUMPTIONS = ["fixed-point comparison only where the reference iteration converges fast (the statement's 'away from "
               "slow-convergence points', with a 4x margin over the library's in-place sweeps)"]
BUDGET = {"quick": (16, 14), "thorough": (16, 300)}
SHRINK_IN_QUICK = False

SHAPES = {
    "clique2": (2, [(0, 1)]),
    "clique3": (3, list(combinations(range(3), 2))),
    "clique4": (4, list(combinations(range(4), 2))),
    "clique5": (5, list(combinations(range(5), 2))),
    "cycle4": (4, [(0, 1), (1, 2), (2, 3), (0, 3)]),
    "cycle5": (5, [(0, 1), (1, 2), (2, 3), (3, 4), (0, 4)]),
    "diamond": (4, [(0, 1), (1, 2), (2, 3), (0, 3), (0, 2)]),
    "house": (5, [(0, 1), (1, 2), (2, 3), (3, 4), (0, 4), (1, 4)]),
    "chord6": (6, [(0, 1), (1, 2), (2, 3), (3, 4), (4, 5), (0, 5), (1, 5)]),
}


@st.composite
def network(draw, tier):
    """constructive: every new motif reuses up to two vertices of earlier motifs (never two of the same motif),
    the rest are fresh -- hypergraph cycles and shared vertices are common, the <=1 shared vertex rule holds."""
    maxn = 11 if tier == "quick" else 15
    motifs = []
    used = []
    n = 0
    for _ in range(draw(st.integers(3, 8))):
        shape = draw(st.sampled_from(["clique2", "clique2", "clique3", "clique3", "clique3", "clique4", "cycle4", "cycle5", "diamond", "house", "chord6", "clique5"]))
        k = SHAPES[shape][0]
        chosen = []
        want = draw(st.sampled_from([2, 2, 2, 1, 1, 0])) if used else 0
        for _ in range(want):
            v = draw(st.sampled_from(used))
            if v in chosen:
                continue
            if all(len((set(chosen) | {v}) & set(m[1])) <= 1 for m in motifs):
                chosen.append(v)
        fresh = k - len(chosen)
        if n + fresh > maxn:
            continue
        vs = chosen + list(range(n, n + fresh))
        n += fresh
        order = draw(st.permutations(vs))
        motifs.append([shape, list(order)])
        used = sorted(set(used) | set(vs))
    if not motifs:
        motifs.append(["clique3", [0, 1, 2]])
        n = 3
    n += draw(st.sampled_from([0, 0, 0, 1, 2]))
    relabel = draw(st.sampled_from([False, True, "big"]))
    phis = [draw(st.floats(0.3, 0.95))] + draw(st.lists(st.one_of(st.sampled_from([0.0, 1.0, 0.5, 0.7]), st.floats(0.0, 1.0)), min_size=0, max_size=3))
    phis = list(draw(st.permutations(phis)))
    its = draw(st.sampled_from([0, 1, 2, 5, 12, 25, 25, 40]))
    return {"n": n, "motifs": motifs, "relabel": relabel, "phis": phis, "iterations": its,
            # edges enter the graph motif by motif, or interleaved (a cover labelled onto an existing graph);
            # motif ids are arbitrary integers
            "edge_order": draw(st.sampled_from(["by_motif", "round_robin", "reversed"])),
            "label_rot": draw(st.sampled_from([0, 0, 1, 2, 3])),
            # the leading key of a label names the motif's topology; it need not be the number of vertices
            "key": draw(st.sampled_from(["size", "size", "index", "offset", "per_edge"])),
            "label_text": draw(st.sampled_from(["same", "same", "per_edge"])),
            "id_base": draw(st.sampled_from([0, 0, 250, 1000])), "id_step": draw(st.sampled_from([1, 1, 7]))}


def strategy(tier):
    return network(tier)


def enumerated(tier, seed):
    """fixed, well-connected networks run on every invocation (the generated ones vary with the seed, and small sparse
    networks converge too slowly for the fixed-point comparison): triangles of the Fano plane with a pendant chain, and
    lines of the affine plane AG(2,3) with a 4-cycle -- every vertex lies in several motifs, motifs share at most one
    vertex; all edge insertion orders x motif-id schemes x vertex-label schemes"""
    fano = [[0, 1, 2], [0, 3, 4], [0, 5, 6], [1, 3, 5], [1, 4, 6], [2, 3, 6], [2, 4, 5]]
    ag = [[0, 1, 2], [3, 4, 5], [6, 7, 8], [0, 3, 6], [1, 4, 7], [2, 5, 8], [0, 4, 8], [1, 5, 6]]
    nets = [
        (11, [["clique3", t] for t in fano] + [["clique2", [0, 7]], ["clique2", [7, 8]], ["clique2", [8, 9]]]),
        # (the 4-cycle passes through two new vertices and through 2 and 7, which lie on no common line among the eight
        # used, so that it shares at most one vertex with every triangle)
        (11, [["clique3", t] for t in ag] + [["cycle4", [2, 9, 7, 10]]]),
        # a 4-cycle whose vertices sit in different surroundings (non-uniform messages round the cycle)
        (18, [["clique3", t] for t in fano] + [["clique3", [7 + a for a in t]] for t in fano] +
             [["cycle4", [0, 14, 7, 15]], ["clique3", [14, 16, 17]]]),
        # two components that both percolate: a Fano plane with a pendant chain (10 vertices) and, apart from it, a
        # second Fano plane (7 vertices)
        (17, [["clique3", t] for t in fano] + [["clique2", [0, 7]], ["clique2", [7, 8]], ["clique2", [8, 9]]] +
             [["clique3", [10 + a for a in t]] for t in fano]),
    ]
    out = []
    # a 5-clique among the Fano triangles, topology keys numbered by kind instead of by size
    for order, rel in (("round_robin", False), ("reversed", "big")):
        out.append({"n": 11, "motifs": [["clique3", t] for t in fano] + [["clique5", [0, 7, 8, 9, 10]]], "relabel": rel,
                    "phis": [0.9, 1.0], "iterations": 32, "edge_order": order, "id_base": 0, "id_step": 1, "label_rot": 1,
                    "key": "index"})
    k5 = list(out)
    out = []
    for n, motifs in nets:
        for order in ("round_robin", "reversed", "by_motif"):
            for base, step in ((0, 1), (1000, 7), (250, 1)):
                for rel in (False, "big"):
                    out.append({"n": n, "motifs": motifs, "relabel": rel, "phis": [0.9, 1.0] if tier == "quick" else [0.9, 0.7, 1.0, 0.0],
                                "iterations": 32 if tier == "quick" else 48,
                                "edge_order": order, "id_base": base, "id_step": step, "label_rot": 1 + (base // 250 + len(out)) % 3,
                                "label_text": "per_edge" if len(out) % 4 == 1 else "same",
                                "key": "per_edge" if len(out) % 4 == 3 else "size"})
    if tier == "thorough":
        return k5 + out
    # quick: both networks x {round_robin, reversed} x two id schemes, alternating label schemes
    keep = [c for c in out if c["edge_order"] != "by_motif" and c["id_base"] in (0, 1000)]
    return k5 + [c for i, c in enumerate(keep) if (i % 2 == 0) == (c["relabel"] is False)]


ENUM_CHUNK = 1


def build(case):
    import networkx as nx
    lab = {True: (lambda v: 3 * v + 2), False: (lambda v: v), "big": (lambda v: 5000 - 7 * v)}[case["relabel"]]
    G = nx.Graph()
    G.add_nodes_from(lab(v) for v in range(case["n"]))
    mlist = []
    rows = []
    for mid, (shape, vs) in enumerate(case["motifs"]):
        k, es = SHAPES[shape]
        nodes = [lab(v) for v in vs]
        edges = [(nodes[a], nodes[b]) for a, b in es]
        uid = case.get("id_base", 0) + case.get("id_step", 1) * mid
        lnodes = list(nodes)
        if case.get("label_rot"):
            # the vertex list of a label is a set of members: any order (not necessarily a walk round a cycle)
            r = case["label_rot"] % len(lnodes)
            lnodes = lnodes[r:] + lnodes[:r]
            if len(lnodes) >= 4:
                lnodes[1], lnodes[2] = lnodes[2], lnodes[1]
        key = {"size": k, "index": 1 + sorted(SHAPES).index(shape), "offset": k + 10, "per_edge": k}[case.get("key", "size")]
        label = f"{key}-{lnodes}-{edges}-{uid}"
        row = []
        for ei, (u, v) in enumerate(edges):
            lab_e = label
            if case.get("key") == "per_edge":
                # the leading key may differ between the edges of one motif (it names the edge's site in the motif)
                lab_e = f"{key + ei % 2}-{lnodes}-{edges}-{uid}"
            if case.get("label_text") == "per_edge":
                # ... and so may the text: every edge lists the motif's members starting from its own end points, and
                # the motif's edges starting from itself (same members, same edges, same id)
                ln = [u, v] + [x for x in lnodes if x not in (u, v)]
                le = edges[ei:] + edges[:ei]
                lab_e = f"{lab_e.split('-')[0]}-{ln}-{le}-{uid}"
            row.append((u, v, lab_e))
        rows.append(row)
        mlist.append((nodes, edges))
    order = case.get("edge_order", "by_motif")
    if order == "round_robin":
        flat = []
        i = 0
        while any(rows):
            for r in rows:
                if r:
                    flat.append(r.pop(0))
    elif order == "reversed":
        flat = [x for r in reversed(rows) for x in reversed(r)]
    else:
        flat = [x for r in rows for x in r]
    for u, v, label in flat:
        G.add_edge(u, v, CoverLabel=label)
    return G, mlist


_groups = {}


def groups_for(shape, root_pos):
    key = (shape, root_pos)
    if key not in _groups:
        k, es = SHAPES[shape]
        _groups[key] = oracles.percolation_groups(list(range(k)), es, root_pos)
    return _groups[key]


def reference(case, phi, max_sweeps):
    """returns (S, sweeps needed to converge or None)."""
    n = case["n"]
    motifs = case["motifs"]
    member = {v: [] for v in range(n)}
    for mid, (shape, vs) in enumerate(motifs):
        for v in vs:
            member[v].append(mid)
    H = {(v, mid): 0.5 for mid, (shape, vs) in enumerate(motifs) for v in vs}
    conv = None
    for sweep in range(1, max_sweeps + 1):
        new = {}
        for mid, (shape, vs) in enumerate(motifs):
            u = {}
            for pos, j in enumerate(vs):
                x = 1.0
                for m2 in member[j]:
                    if m2 != mid:
                        x *= H[(j, m2)]
                u[pos] = x
            for pos, i in enumerate(vs):
                g, m = groups_for(shape, pos)
                new[(i, mid)] = oracles.percolation_value(g, m, phi, u)
        delta = max(abs(new[k] - H[k]) for k in H) if H else 0.0
        H = new
        if delta < 1e-10:
            conv = sweep
            break
    tot = 0.0
    for v in range(n):
        x = 1.0
        for mid in member[v]:
            x *= H[(v, mid)]
        tot += x
    return 1.0 - tot / n, conv


def hyper_cycle(case):
    """does the vertex-motif incidence graph contain a cycle?"""
    import networkx as nx
    B = nx.Graph()
    for mid, (shape, vs) in enumerate(case["motifs"]):
        for v in vs:
            B.add_edge(("m", mid), ("v", v))
    return B.number_of_edges() >= B.number_of_nodes() or any(
        len(c) <= B.subgraph(c).number_of_edges() for c in nx.connected_components(B))


def check(case):
    from gcmpy.message_passing.message_passing import MessagePassing
    G, mlist = build(case)
    for (na, ea), (nb, eb) in combinations(mlist, 2):
        if len(set(na) & set(nb)) > 1 or {frozenset(e) for e in ea} & {frozenset(e) for e in eb}:
            raise RuntimeError(f"harness: motifs {na} and {nb} share more than one vertex: not a case of this property")
    its = case["iterations"]
    mp = call("construct", MessagePassing, G, "motif cover", its)
    answers = []
    classes = set()
    mid_s = False
    for qi, phi in enumerate(case["phis"]):
        if qi == 1:
            mp = clone_point(mp, case)  # after the first query the caller goes on with a copy of the object
        s = call("theoretical", mp.theoretical, phi)
        try:
            s = float(s)
        except Exception:
            raise Violation("return-type", f"theoretical({phi}) returned {s!r}")
        if not (-1e-12 <= s <= 1 + 1e-12):
            raise Violation("bounds", f"theoretical({phi}) = {s!r} outside [0,1] (iterations={its})")
        G2, _ = build(case)
        fresh = call("theoretical-fresh", MessagePassing(G2, "motif cover", its).theoretical, phi)
        if fresh != s:
            raise Violation("history-dependence", f"query {qi} phi={phi}: shared object {s!r}, fresh object {fresh!r}; earlier queries {case['phis'][:qi]}")
        if phi == 0.0 and its >= 1 and abs(s) > 1e-12:
            raise Violation("phi-zero", f"theoretical(0) = {s!r} (iterations={its})")
        answers.append((phi, s))
        if its >= 4:
            ref, conv = reference(case, phi, max(1, its // 4))
            if conv is not None:
                classes.add("fixed_point_compared")
                if abs(ref - s) > 1e-6:
                    raise Violation("fixed-point", f"phi={phi} iterations={its}: theoretical = {s!r}, reference fixed point {ref!r} "
                                                   f"(reference converged in {conv} sweeps); motifs {case['motifs']} n={case['n']}")
            else:
                classes.add("reference_slow")
        if 0.01 < s < 0.99:
            mid_s = True
    for (p1, s1), (p2, s2) in combinations(sorted(answers), 2):
        if p1 < p2 and s1 > s2 + 1e-9:
            raise Violation("monotone", f"S({p1})={s1!r} > S({p2})={s2!r} at iterations={its}")
    # the same graph object is then given another cover (every edge a motif of its own, ids again from 0) and asked
    # again: the answer is that of a freshly built graph with that cover, whatever was computed on the object before
    if G.number_of_edges() and case["phis"]:
        import networkx as nx
        H = nx.Graph()
        H.add_nodes_from(G.nodes())
        for i, (u, v) in enumerate(list(G.edges())):
            lab = f"2-{[u, v]}-{[(u, v)]}-{i}"
            G.edges[u, v]["CoverLabel"] = lab
            H.add_edge(u, v, CoverLabel=lab)
        phi2 = case["phis"][0]
        a = call("theoretical-after-relabelling", MessagePassing(G, "motif cover", its).theoretical, phi2)
        b = call("theoretical-fresh", MessagePassing(H, "motif cover", its).theoretical, phi2)
        if abs(float(a) - float(b)) > 1e-12:
            raise Violation("history-dependence", f"graph object re-labelled with an edge cover, phi={phi2}: {a!r}; a freshly built graph with "
                                                  f"the same cover: {b!r}")
        classes.add("graph_object_relabelled")
    kinds = {m[0] for m in case["motifs"]}
    if any(not any(v in m[1] for m in case["motifs"]) for v in range(case["n"])):
        classes.add("vertex_in_no_motif")
    if case.get("key", "size") != "size":
        classes.add("topology_key_is_not_the_size")
    if case.get("key") == "per_edge":
        classes.add("topology_key_differs_between_edges_of_a_motif")
    if case.get("label_text") == "per_edge":
        classes.add("label_text_differs_between_edges_of_a_motif")
    if any(sh == "clique5" for sh, _ in case["motifs"]):
        classes.add("has_5_clique")
    if len(case["phis"]) >= 2:
        classes.add("query_history")
    hc = hyper_cycle(case)
    if hc:
        classes.add("motif_hypergraph_cycle")
    return {"nontrivial": hc and len(kinds) >= 2 and mid_s, "classes": sorted(classes)}
