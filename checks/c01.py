"""C01 -- generated graphs realise exactly the requested joint degree sequence."""
import numbers
from collections import Counter

from vlib.runner import Violation
from checks import gcm_common as G

PID = "C01"
RULE = ("Hypothesis-constructed handshake-consistent joint degree sequences x motif configurations (cliques, cycles, "
        "diamonds, template callbacks, multi-orbit custom motifs) x algorithm {fast, network, motifs} x construction "
        "path {class, factory, main(enum), main(str)} x RNG {seeded, scripted}; also: generator reused for a second graph, caller's parameter dictionary re-assigned after construction; edge-list results must carry one motif id per callback return with edges; non-trivial = at least 2 motif "
        "instances in total and some motif with >= 2 instances; distinct = distinct canonical JSON of the case")
ASSUMPTIONS = ["every column of the joint degree sequence belongs to exactly one motif (as in the suite's fixtures)",
               "build callbacks are called synchronously once per motif instance (journalled by wrapper callbacks)"]
BUDGET = {"quick": (16, 300), "thorough": (16, 15000)}


def strategy(tier):
    return G.gcm_case(tier)


def enumerated(tier, seed):
    """a few large sequences (more than 65536 stubs per topology, motif sizes 2/3/5), all three algorithms:
    anything that processes stubs or rows in blocks has its boundaries here, far beyond the generated sizes."""
    out = []
    for i, algo in enumerate(["fast", "network", "motifs"]):
        N = 70020 + 30 * i
        motifs = []
        for j, m in enumerate([2, 3, 5]):
            mo = {"kind": "clique", "m": m, "edges": [], "ret": "list", "orbit_sizes": [m], "cols": [j],
                  "names": f"t{j}" if algo != "motifs" else [f"t{j}"] * (m * (m - 1) // 2)}
            motifs.append(mo)
        out.append({"algo": algo, "path": "class", "N": N, "big": True, "motifs": motifs,
                    "rng": {"mode": "seed", "seed": seed * 10 + i}})
    # joint degree sequences handed over as NumPy tables with a narrow integer dtype (legal: rows are sequences of ints)
    for i, (dt, N) in enumerate([("uint8", 300), ("int8", 200), ("int16", 300), ("uint8", 120)]):
        for algo in ("fast", "network"):
            mo = {"kind": "clique", "m": 2, "edges": [], "ret": "list", "orbit_sizes": [2], "cols": [0], "names": "t0"}
            out.append({"algo": algo, "path": "class", "N": N, "np_dtype": dt, "motifs": [mo],
                        "jds": [[1 + (v % 3 == 0)] for v in range(N)] if sum(1 + (v % 3 == 0) for v in range(N)) % 2 == 0
                        else [[1 + (v % 3 == 0)] for v in range(N - 1)] + [[2 + ((N - 1) % 3 == 0)]],
                        "rng": {"mode": "seed", "seed": seed * 10 + i}})
    # custom motifs with a large first orbit (a hub with 49, 98, 103, ... leaves), 1..8 instances: the number of instances
    # is an exact integer quotient whatever the orbit size
    for size in (7, 49, 98, 103, 107, 161, 187):
        for cnt in (1, 2, 3, 4, 6, 7, 8):
            mo = {"kind": "template", "m": size + 1, "edges": [[0, size], [1, size]], "ret": "list", "etype": "tuple",
                  "orbit_sizes": [size, 1], "cols": [0, 1], "names": ["leaf", "leaf"]}
            jds = [[1, 0]] * (size * cnt) + [[0, 1]] * cnt
            out.append({"algo": "motifs", "path": "class" if cnt % 2 else "main_str", "N": len(jds), "jds": jds, "motifs": [mo],
                        "rng": {"mode": "seed", "seed": seed * 10 + cnt}})
    # two topologies that carry the same name (names are labels only) but differ in size / callback
    for algo in ("fast", "network"):
        for names in (["edge", "tri", "edge"], [None, None, None], ["a", "a", "b"]):
            motifs = [{"kind": k, "m": m, "edges": [], "ret": "list", "orbit_sizes": [m], "cols": [j], "names": nm}
                      for j, (k, m, nm) in enumerate(zip(("clique", "clique", "cycle"), (2, 3, 4), names))]
            out.append({"algo": algo, "path": "class", "N": 12, "jds": [[2, 1, 1]] * 12, "motifs": motifs,
                        "rng": {"mode": "seed", "seed": seed * 10 + len(out)}})
    return out


ENUM_CHUNK = 1


def norm_edges(es, bare):
    if bare:
        return [tuple(es)]
    return [tuple(e) for e in es]


def check(case):
    if case.get("big") and "jds" not in case:
        # every vertex joint degree (1,1,1); N is divisible by 30 so the handshake condition holds
        case = {**case, "jds": [[1, 1, 1]] * case["N"]}
    g, cls, res, journal, jds, pristine = G.generate(case)
    algo = case["algo"]
    N = case["N"]
    sizes = G.motif_sizes(case)
    # construction path returns the right kind of generator
    if not isinstance(g, cls):
        raise Violation("wrong-class", f"path {case['path']} for algo {algo} built {type(g).__name__}")
    if jds != pristine:
        raise Violation("input-mutated", f"the joint degree sequence passed in was modified: {jds} vs {pristine}")
    # ---- journal: instance counts, slot sizes, stub multisets
    want_inst = G.instances(case)
    per_motif = Counter(j for j, _, _ in journal)
    for j, mo in enumerate(case["motifs"]):
        if per_motif.get(j, 0) != want_inst[j]:
            raise Violation("instance-count", f"motif {j}: {per_motif.get(j, 0)} instances built, "
                                              f"{want_inst[j]} = sum_v jds[v][k]/size requested")
        m = sum(mo["orbit_sizes"])
        slots = [Counter() for _ in mo["cols"]]
        for jj, vs, _ in journal:
            if jj != j:
                continue
            if len(vs) != m:
                raise Violation("slot-size", f"motif {j}: callback received {len(vs)} vertices {vs}, wants {m}")
            off = 0
            for o, s in enumerate(mo["orbit_sizes"]):
                slots[o].update(vs[off:off + s])
                off += s
        for o, c in enumerate(mo["cols"]):
            want = Counter({v: jds[v][c] for v in range(N) if jds[v][c]})
            if slots[o] != want:
                raise Violation("stub-multiset", f"motif {j} orbit {o} (column {c}): vertices occupy slots "
                                                 f"{dict(slots[o])}, joint degrees prescribe {dict(want)}")
    for _, vs, _ in journal:
        for v in vs:
            if not (isinstance(v, numbers.Integral) and not isinstance(v, bool) and 0 <= v < N):
                raise Violation("foreign-vertex", f"vertex {v!r} outside 0..{N - 1} handed to a callback")
    # ---- the library's own motif generators emit the documented edges (clique: all pairs; cycle: consecutive
    # pairs plus the closing edge; diamond: 4-cycle plus both chords), also when a vertex fills two slots
    for j, vs, es in journal:
        mo = case["motifs"][j]
        if mo["kind"] in ("clique", "cycle", "diamond") and len(vs) == mo["m"]:
            got = Counter(frozenset(e) if e[0] != e[1] else (e[0],) for e in es)
            want = Counter(frozenset(e) if e[0] != e[1] else (e[0],) for e in G.expected_rows(mo, vs))
            if got != want:
                raise Violation("builtin-motif-edges", f"{mo['kind']}_motif({vs}) returned {list(es)}, documented edges "
                                                       f"{G.expected_rows(mo, vs)}")
    # ---- result object
    rows = []
    for j, vs, es in journal:
        rows.extend(norm_edges(es, case["motifs"][j].get("ret") == "bare"))
    if algo == "network":
        import networkx as nx
        from gcmpy import NetworkNames
        Gx = res.G
        if set(Gx.nodes()) != set(range(N)):
            raise Violation("node-set", f"network nodes {sorted(Gx.nodes())} != 0..{N - 1}")
        for v in range(N):
            jd = Gx.nodes[v].get(NetworkNames.JOINT_DEGREE)
            if jd is None or tuple(jd) != jds[v]:
                raise Violation("node-annotation", f"vertex {v} annotated {jd!r}, joint degree {jds[v]}")
        got = {frozenset(e) for e in Gx.edges()}
        want = {frozenset(e) for e in rows}
        if got != want:
            raise Violation("edge-set", f"network edges {sorted(map(sorted, got))} != callback edges {sorted(map(sorted, want))}")
    else:
        jd = res.joint_degrees
        if [tuple(x) for x in jd] != pristine or len(jd) != N:
            raise Violation("jds-not-carried", f"edge list joint_degrees {jd} != requested {pristine}")
        # edges emitted = exactly the callback edges.  (Row format is C02's business: here a
        # two-edge motif stored as one row still counts for both of its edges.)
        flat = []
        for e in res.edge_list:
            if not isinstance(e, (tuple, list)):
                raise Violation("edges-vs-callbacks", f"edge column entry {e!r} is not an edge; edge column {res.edge_list[:8]}")
            if len(e) == 2 and all(isinstance(x, (tuple, list)) for x in e):
                flat.extend(tuple(x) for x in e)
            else:
                flat.append(tuple(e))
        # (as a multiset of unordered pairs: neither the order of the rows nor the orientation of a pair is fixed)
        if Counter(tuple(sorted(e)) for e in flat) != Counter(tuple(sorted(e)) for e in rows):
            raise Violation("edges-vs-callbacks", f"edge column {res.edge_list} does not hold exactly the edges the "
                                                  f"callbacks returned {rows}")
        # "emits exactly that many motif instances": the instances of an edge list are its motif ids, so the ids
        # label every row and there are as many of them as callback returns with at least one edge
        nonempty = sum(1 for r in (norm_edges(es, case["motifs"][j].get("ret") == "bare") for j, _, es in journal) if r)
        ids = list(res.motif_id)
        if len(ids) != len(res.edge_list):
            raise Violation("instance-ids", f"{len(res.edge_list)} edge rows but {len(ids)} motif ids")
        if len(set(map(repr, ids))) != nonempty:
            raise Violation("instance-ids", f"{len(set(map(repr, ids)))} distinct motif ids for {nonempty} motif instances "
                                            f"with edges; motif_id={ids}")
        for e in flat:
            for v in e:
                if not (isinstance(v, numbers.Integral) and not isinstance(v, bool) and 0 <= v < N):
                    raise Violation("foreign-vertex", f"vertex {v!r} in edge list outside 0..{N - 1}")
    total = sum(want_inst)
    return {"nontrivial": total >= 2 and max(want_inst, default=0) >= 2, "classes": sorted(G.classes_of(case)),
            "notes": {"instances": total}}
