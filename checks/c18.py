"""C18 -- bond percolation keeps each edge independently with probability phi."""
import copy

from hypothesis import strategies as st

from vlib import rng, stats
from vlib.runner import Violation, call

PID = "C18"
RULE = ("Hypothesis-generated histories on one graph object: a non-empty graph (trees, cycles, random, isolated "
        "vertices, attribute-carrying edges, arbitrary node labels) followed by a sequence of percolate(phi) calls "
        "(phi in {0,1} or generated) interleaved with count-preserving in-place rewirings; seeded RNG. Exact oracles at "
        "phi in {0,1}, lattice/bounds and untouched input for all phi. Plus seeded chi-square tests of the "
        "Binomial(M,phi) law on stars (M in 1..12, phi in {0.05,0.08,0.2,0.35,0.7,0.93}). Graphs may carry self-loops, parallel edges (multigraphs), integer names -1..n-1 with a gap; stars with loops / double bonds and two disjoint stars in the statistical family. Non-trivial = graphNon-trivial = graph with >= 3 edges and some "
        "call with 0<phi<1; distinct = canonical JSON")
ASSUMPTIONS = ["law clause decided statistically (p<1e-9) on 4000 (quick) / 40000 seeded runs per star"]
BUDGET = {"quick": (16, 300), "thorough": (16, 12000)}


@st.composite
def graph_case(draw, tier):
    n = draw(st.integers(1, 10 if tier == "quick" else 25))
    pairs = [(i, j) for i in range(n) for j in range(i + 1, n)]
    shape = draw(st.sampled_from(["random", "random", "tree", "cycle", "star", "dense"]))
    if shape == "tree":
        edges = [(draw(st.integers(0, i - 1)), i) for i in range(1, n)]
    elif shape == "cycle" and n >= 3:
        edges = [(i, (i + 1) % n) for i in range(n)]
    elif shape == "star":
        edges = [(0, i) for i in range(1, n)]
    elif shape == "dense":
        # a clique on all vertices but the last one or two, which stay isolated
        k = max(1, n - draw(st.integers(1, 2)))
        edges = [(i, j) for i in range(k) for j in range(i + 1, k)]
    else:
        edges = draw(st.lists(st.sampled_from(pairs), max_size=min(len(pairs), 20), unique=True)) if pairs else []
    labels = draw(st.sampled_from(["int", "offset", "str", "wrap"]))
    attrs = draw(st.booleans())
    ops = draw(st.lists(st.one_of(
        st.tuples(st.just("perc"), st.sampled_from([0.0, 1.0, 1.0, 0.5, 0.3, 0.9])),
        st.tuples(st.just("perc"), st.floats(0.0, 1.0)),
        st.tuples(st.just("rewire"), st.integers(0, 1000))), min_size=1, max_size=6))
    # self-loops are ordinary edges of a generated network (a vertex drawn twice into one motif): they join nothing
    loops = draw(st.one_of(st.just([]), st.just([]), st.lists(st.integers(0, n - 1), unique=True, max_size=n), st.just(list(range(n)))))
    # a multigraph (as nx.configuration_model returns): some edges present twice; each copy is a bond of its own
    multi = draw(st.sampled_from([False, False, False, True]))
    return {"n": n, "flip": draw(st.booleans()), "edges_first": draw(st.booleans()), "loops": sorted(loops), "multi": multi,
            "edges": [list(sorted(e)) for e in edges], "labels": labels, "attrs": attrs,
            "ops": [list(o) for o in ops], "seed": draw(st.integers(0, 2 ** 31))}


def strategy(tier):
    return graph_case(tier)


def enumerated(tier, seed):
    out = []
    T = 4000 if tier == "quick" else 40000
    # occupation probabilities extremely close to 1 and to 0 on large graphs (a draw of limited resolution shows here)
    out.append({"stat": True, "extreme": "near_one", "M": 30000, "phi": 1 - 1e-9, "T": 30, "seed": seed * 100 + 92})
    out.append({"stat": True, "extreme": "near_zero", "M": 60000, "phi": 1e-5, "T": 40, "seed": seed * 100 + 93})
    out.append({"stat": True, "bigstar": True, "M": 3000, "phi": 0.3, "T": 30 if tier == "quick" else 100, "seed": seed * 100 + 90})
    out.append({"stat": True, "bigstar": True, "M": 1500, "phi": 0.5, "T": 30 if tier == "quick" else 100, "seed": seed * 100 + 91})
    for i, (M, phi) in enumerate([(4, 0.2), (7, 0.35), (12, 0.7), (1, 0.08), (3, 0.05), (2, 0.93)] + ([(5, 0.7), (9, 0.2), (10, 0.35)] if tier == "thorough" else [])):
        out.append({"stat": True, "M": M, "phi": phi, "T": T, "seed": seed * 100 + i})
    # the same law on stars that carry a self-loop on every vertex
    for i, (M, phi) in enumerate([(3, 0.5), (6, 0.3)]):
        out.append({"stat": True, "M": M, "phi": phi, "T": T, "seed": seed * 100 + 50 + i, "loops": True})
    # two disjoint stars: N*S - 1 is the larger of two independent Binomials (the largest cluster of the WHOLE graph)
    for i, (M1, M2, phi) in enumerate([(5, 4, 0.5), (6, 6, 0.3)]):
        out.append({"stat": True, "two_stars": [M1, M2], "M": M1, "phi": phi, "T": T, "seed": seed * 100 + 70 + i})
    # and on multigraph stars whose leaves hang on double bonds
    for i, (M, phi) in enumerate([(4, 0.3), (7, 0.5)]):
        out.append({"stat": True, "M": M, "phi": phi, "T": T, "seed": seed * 100 + 60 + i, "double": True})
    return out


def lcc_fraction(G):
    import networkx as nx
    return max(len(c) for c in nx.connected_components(G)) / G.number_of_nodes()


def snapshot(G):
    return (copy.deepcopy(list(G.nodes(data=True))),
            copy.deepcopy(sorted(((repr(sorted(map(repr, (u, v)))), d) for u, v, d in G.edges(data=True)), key=lambda t: t[0])),
            copy.deepcopy(dict(G.graph)))


def check(case):
    import networkx as nx
    from gcmpy import bond_percolate
    if case.get("stat"):
        M, phi, T = case["M"], case["phi"], case["T"]
        if case.get("extreme") == "near_one":
            # a path with M bonds at phi = 1 - 1e-9: all bonds survive with probability (1-1e-9)^M = 1 - 3e-5 per run,
            # so three or more broken runs out of T = 30 have probability below 1e-10
            G = nx.path_graph(M + 1)
            broken = 0
            with rng.seeded(case["seed"]):
                for _ in range(T):
                    if call("percolate", bond_percolate, G, phi) < 1.0:
                        broken += 1
            if broken >= 3:
                raise Violation("near-one", f"path with {M} bonds, phi = 1 - 1e-9: {broken} of {T} runs lost a bond "
                                            f"(expected about {T * M * 1e-9:.4f})")
            return {"nontrivial": True, "classes": ["statistical", "phi_near_one"], "notes": {"broken_runs": broken}}
        if case.get("extreme") == "near_zero":
            # a star with M leaves at phi = 1e-5: the total number of retained leaves over T runs is Binomial(T*M, phi),
            # mean T*M*phi = 24; zero has probability e^-24 < 1e-10
            G = nx.star_graph(M)
            tot = 0.0
            with rng.seeded(case["seed"]):
                for _ in range(T):
                    tot += call("percolate", bond_percolate, G, phi) * (M + 1) - 1
            if round(tot) == 0:
                raise Violation("near-zero", f"star with {M} leaves, phi = 1e-5: no leaf retained in {T} runs (expected about {T * M * phi:.0f})")
            return {"nontrivial": True, "classes": ["statistical", "phi_near_zero"], "notes": {"retained_total": tot}}
        if case.get("bigstar"):
            # many edges: the number of retained leaves is Binomial(M, phi); z-test of the mean over T runs
            G = nx.star_graph(M)
            tot = 0.0
            with rng.seeded(case["seed"]):
                for _ in range(T):
                    tot += call("percolate", bond_percolate, G, phi) * (M + 1) - 1
            mean = tot / T
            sd = (M * phi * (1 - phi) / T) ** 0.5
            z = (mean - M * phi) / sd
            if abs(z) > 6.5:  # two-sided normal tail below 1e-10
                raise Violation("binomial-law-large", f"star with {M} leaves, phi={phi}: mean retained leaves {mean:.1f} over {T} runs, "
                                                      f"Binomial mean {M * phi:.1f} (z = {z:.1f})")
            return {"nontrivial": True, "classes": ["statistical", "large_star"], "notes": {"z_large_star": abs(z)}}
        if case.get("two_stars"):
            M1, M2 = case["two_stars"]
            G = nx.disjoint_union(nx.star_graph(M1), nx.star_graph(M2))
            N = M1 + M2 + 2
            cnt = [0] * (max(M1, M2) + 1)
            with rng.seeded(case["seed"]):
                for _ in range(T):
                    k = call("percolate", bond_percolate, G, phi) * N - 1
                    if abs(k - round(k)) > 1e-6 or not 0 <= round(k) <= max(M1, M2):
                        raise Violation("lattice", f"two stars {M1},{M2}: N*S-1 = {k}")
                    cnt[round(k)] += 1
            cdf = lambda M_, k_: sum(stats.binom_pmf(j, M_, phi) for j in range(0, min(k_, M_) + 1)) if k_ >= 0 else 0.0
            exp = [T * (cdf(M1, k) * cdf(M2, k) - cdf(M1, k - 1) * cdf(M2, k - 1)) for k in range(max(M1, M2) + 1)]
            s, df, p = stats.chi2_test(cnt, exp)
            if p < stats.ALPHA:
                raise Violation("binomial-law", f"two disjoint stars with {M1} and {M2} leaves, phi={phi}: largest-cluster counts {cnt} vs "
                                                f"max of two Binomials {[round(e, 1) for e in exp]}: chi2={s:.1f} df={df} p={p:.3g}")
            return {"nontrivial": True, "classes": ["statistical", "disconnected_input"], "notes": {"p_two_stars": p}}
        G = nx.star_graph(M)
        if case.get("loops"):
            G.add_edges_from((v, v) for v in G.nodes())
        if case.get("double"):
            # every leaf hangs on two parallel bonds: it stays attached with probability 1 - (1 - phi)^2
            G = nx.MultiGraph(G)
            G.add_edges_from([(0, v) for v in range(1, M + 1)])
            phi = 1 - (1 - phi) ** 2
        cnt = [0] * (M + 1)
        with rng.seeded(case["seed"]):
            for _ in range(T):
                s = call("percolate", bond_percolate, G, case["phi"])
                k = s * (M + 1) - 1
                if abs(k - round(k)) > 1e-6 or not 0 <= round(k) <= M:
                    raise Violation("lattice", f"star M={M}: N*S-1 = {k}")
                cnt[round(k)] += 1
        exp = [T * stats.binom_pmf(k, M, phi) for k in range(M + 1)]
        s, df, p = stats.chi2_test(cnt, exp)
        if p < stats.ALPHA:
            raise Violation("binomial-law", f"star with {M} leaves, phi={phi}: retained-edge counts {cnt} vs Binomial "
                                            f"expectation {[round(e, 1) for e in exp]}: chi2={s:.1f} df={df} p={p:.3g}")
        return {"nontrivial": True, "classes": ["statistical"] + (["self_loops"] if case.get("loops") else []), "notes": {"p_binomial": p}}
    n = case["n"]
    # "wrap": integer names -1, 0, 1, .., n-3, n-1 -- all below n, not contiguous, and -1 + n is a name as well
    lab = {"int": lambda i: i, "offset": lambda i: 10 * i + 7, "str": lambda i: f"v{i}",
           "wrap": lambda i: (i - 1 if i < n - 1 else n - 1) if n >= 3 else i}[case["labels"]]
    G = nx.MultiGraph() if case.get("multi") else nx.Graph()
    if not case.get("edges_first"):
        for i in range(n):
            G.add_node(lab(i))
    for j, (a, b) in enumerate(case["edges"]):
        if case.get("flip") and (a + b + j) % 2:
            a, b = b, a  # edges listed (larger, smaller): vertices then enter the graph in descending order
        if case["attrs"]:
            G.add_edge(lab(a), lab(b), topology=f"t{j % 2}", motif_ids=j, w=[j])
        else:
            G.add_edge(lab(a), lab(b))
        if case.get("multi") and j % 2 == 0:
            G.add_edge(lab(b), lab(a))  # second, parallel copy
    for i in range(n):
        G.add_node(lab(i))
    for v in case.get("loops") or ():
        if case["attrs"]:
            G.add_edge(lab(v), lab(v), topology="t0", motif_ids=1000 + v, w=[v])
        else:
            G.add_edge(lab(v), lab(v))
    classes = {"labels_" + case["labels"]}
    if case.get("loops"):
        classes.add("self_loops")
    if case.get("multi"):
        classes.add("multigraph")
    mid = False
    with rng.seeded(case["seed"]):
        for step, (op, arg) in enumerate(case["ops"]):
            if op == "rewire":
                if case.get("multi"):
                    continue
                es = list(G.edges())
                non = [(lab(i), lab(j)) for i in range(n) for j in range(i + 1, n) if not G.has_edge(lab(i), lab(j))]
                if not es or not non:
                    continue
                u, v = es[arg % len(es)]
                d = dict(G.edges[u, v])
                G.remove_edge(u, v)
                a, b = non[(arg // 7) % len(non)]
                G.add_edge(a, b, **d)
                classes.add("rewired_in_place")
                continue
            phi = arg
            snap = snapshot(G)
            s = call("percolate", bond_percolate, G, phi)
            if snapshot(G) != snap:
                raise Violation("input-mutated", f"step {step}: the input graph (nodes, edges or their data) changed: "
                                                 f"{snap} -> {snapshot(G)}")
            try:
                s = float(s)
            except Exception:
                raise Violation("return-type", f"returned {s!r}")
            k = s * n
            if abs(k - round(k)) > 1e-9 or not 1 <= round(k) <= n:
                raise Violation("lattice", f"step {step}: S={s!r} is not a multiple of 1/{n} in [1/{n}, 1]")
            top = lcc_fraction(G)
            if s > top + 1e-12:
                raise Violation("exceeds-input", f"step {step}: S={s} exceeds the largest component fraction {top} of the input")
            if phi == 1.0 and s != top:
                raise Violation("phi-one", f"step {step}: phi=1 returned {s!r}, exact largest-component fraction {top!r}")
            if phi == 0.0 and s != 1.0 / n:
                raise Violation("phi-zero", f"step {step}: phi=0 returned {s!r}, expected 1/{n}")
            if 0 < phi < 1:
                mid = True
    if case["attrs"]:
        classes.add("edge_attributes")
    if any(G.degree(v) == 0 for v in G):
        classes.add("isolated_vertex")
    return {"nontrivial": len(case["edges"]) >= 3 and mid, "classes": sorted(classes)}
