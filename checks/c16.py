"""C16 -- closed-form clique and cycle equations and their graph counts are exact."""
from fractions import Fraction
from itertools import combinations

from hypothesis import strategies as st

from vlib import oracles
from vlib.poly import Poly, compose
from vlib.runner import Violation, call

PID = "C16"
RULE = ("exhaustive tables: clique_equation(tau) for tau=2..7 (quick) / 2..9 with one distinct polynomial variable per "
        "neighbour; chordless_cycle_equation(n) for n=3..12 / 3..16; Q(n,k) for all 1<=n<=12 / 16 and -1<=k<=n(n-1)/2+1; "
        "QQ(n,k) for n<=5 / 6 and 0<=k<=n(n-1)/2; all compared exactly (polynomial identity / integers) with the "
        "brute-force bond-percolation expectation resp. reference connected-graph counts (recurrence, cross-checked "
        "by brute force for n<=5/6). Hypothesis-generated: call histories of clique_equation with neighbour values "
        "drawn from a small pool (repeated values, permutations, Fractions and shared variables), and "
        "number_of_connected_graphs on generated substrates (<= 7 vertices, relabelled ids), vertex subsets, focal "
        "vertex and every k against a union-find reference. Plus clique_equation at 14 lists of plain numbers whose symmetric sums cancel exactly (mixed signs), and substrates with self-loops for the counter. Non-trivial = tau>=3 / (n>=4 and n-1<k<N) / substrate "
        "with a cycle; distinct = canonical JSON")
ASSUMPTIONS = ["for tau >= 7 the clique oracle uses the vertex-subset form built on the reference connected-graph counts, "
               "validated against the edge-subset brute force for tau <= 6 in the same run"]
BUDGET = {"quick": (16, 120), "thorough": (16, 5000)}
EXHAUSTIVE = True
EXHAUSTIVE_NOTE = "the tables of RULE (clique/cycle equations, Q, QQ) are enumerated completely over the stated ranges"
ENUM_CHUNK = 6


def enumerated(tier, seed):
    q = tier == "quick"
    cases = []
    for tau in range(2, (7 if q else 9) + 1):
        cases.append({"kind": "clique", "tau": tau})
    # plain-number neighbour values whose symmetric sums cancel exactly (mixed signs), repeated values, zeros, ones:
    # points a value-dependent shortcut would single out
    for Hs in ([0.5, -0.5], [1.0, -1.0], [0.75, -0.25, -0.5], [2.0, 2.0, -1.0], [1.0, 1.0, -2.0], [1.0, -1.0, 0.5, -0.5],
               [1.0, 1.0, -1.0, -1.0], [0.0, 0.0], [0.0, 0.5, 0.0], [1.0, 1.0, 1.0], [0.5, 0.5, 0.5, 0.5], [2.0, 0.5],
               [3.0, -3.0, 0.25, 0.25, 1.0], [0.25, 0.0, -0.25, 4.0, 0.5],
               # values that differ, but only in the sixth or eighth digit (messages near a fixed point)
               [0.7, 0.700004, 0.699997, 0.700002], [0.9999999, 1.0, 0.99999995], [0.25, 0.2500001], [1e-9, 2e-9, 0.0],
               [0.5, 0.500003, 0.5, 0.499996, 0.5]):
        cases.append({"kind": "clique_points", "Hs": Hs})
    for n in range(3, (12 if q else 16) + 1):
        cases.append({"kind": "cycle", "n": n})
    # long cycles (no brute force there): closed form of the expectation, cross-checked against brute force on short ones
    for n in (21, 24, 33, 64):
        cases.append({"kind": "long_cycle", "n": n})
    for n in range(1, (12 if q else 16) + 1):
        cases.append({"kind": "Q", "n": n})
    for n in range(1, (5 if q else 6) + 1):
        cases.append({"kind": "QQ", "n": n})
    for n in range(2, 6 if q else 7):
        cases.append({"kind": "refcheck", "n": n})
    # vertex subsets that induce a regular but DISCONNECTED subgraph (disjoint cycles whose only links run through
    # vertices left out of the subset): the count is 0 for every k
    tri = lambda a, b, c: [[a, b], [b, c], [c, a]]
    sq = lambda a, b, c, d: [[a, b], [b, c], [c, d], [d, a]]
    for nodes, edges, hub in (
            (list(range(7)), tri(0, 1, 2) + tri(3, 4, 5) + [[6, 0], [6, 3]], 6),
            (list(range(8)), tri(0, 1, 2) + sq(3, 4, 5, 6) + [[7, 1], [7, 5]], 7),
            (["a", "b", "c", "d", "e", "f", "g", "h", "hub"], sq("a", "b", "c", "d") + sq("e", "f", "g", "h") + [["hub", "a"], ["hub", "e"]], "hub"),
            (list(range(10)), tri(0, 1, 2) + tri(3, 4, 5) + tri(6, 7, 8) + [[9, 0], [9, 3], [9, 6]], 9),
            (list(range(5)), [[0, 1], [2, 3], [4, 0], [4, 2]], 4)):
        rest = [v for v in nodes if v != hub]
        cases.append({"kind": "counter", "n": len(nodes), "edges": edges, "nodes": nodes, "focal": rest[0], "ak": rest[1:]})
        cases.append({"kind": "counter", "n": len(nodes), "edges": edges, "nodes": nodes, "focal": rest[-1], "ak": rest[:-1]})
    return cases


@st.composite
def clique_history(draw, tier):
    pool = draw(st.lists(st.one_of(st.fractions(0, 1, max_denominator=10).map(lambda f: ["f", f.numerator, f.denominator]),
                                   st.sampled_from([["v", "x"], ["v", "y"], ["v", "z"]])), min_size=1, max_size=3, unique_by=lambda t: tuple(t)))
    calls = []
    for _ in range(draw(st.integers(1, 6))):
        tau = draw(st.integers(2, 5))
        Hs = [draw(st.sampled_from(pool)) for _ in range(tau - 1)]
        phi = draw(st.one_of(st.just(["v", "p"]), st.fractions(0, 1, max_denominator=8).map(lambda f: ["f", f.numerator, f.denominator])))
        calls.append({"tau": tau, "Hs": Hs, "phi": phi})
    return {"kind": "clique_history", "calls": calls}


@st.composite
def counter_case(draw, tier):
    n = draw(st.integers(2, 7))
    pairs = [list(p) for p in combinations(range(n), 2)]
    edges = draw(st.lists(st.sampled_from(pairs), min_size=1, max_size=min(len(pairs), 11), unique_by=tuple))
    if draw(st.integers(0, 3)) == 3:
        # dense blocks joined by a sparse cut (edge connectivity below the minimum degree)
        a = draw(st.integers(3, 4))
        b = draw(st.integers(3, 7 - a))
        n = a + b
        edges = [list(p) for p in combinations(range(a), 2)] + [list(p) for p in combinations(range(a, n), 2)]
        edges += [[draw(st.integers(0, a - 1)), draw(st.integers(a, n - 1))] for _ in range(draw(st.integers(1, 2)))]
        edges = [list(e) for e in {tuple(e) for e in edges}]
    lab = list(range(n))
    sch = draw(st.sampled_from(["id", "offset", "negative", "big", "str"]))
    if sch == "offset":
        lab = [5 * i + 2 for i in range(n)]
    elif sch == "negative":
        lab = [i - 2 for i in range(n)]
    elif sch == "big":
        lab = [3000 - 11 * i for i in range(n)]
    elif sch == "str":
        lab = [f"n{i}" for i in range(n)]
    focal = draw(st.integers(0, n - 1))
    ak = draw(st.lists(st.integers(0, n - 1).filter(lambda v: v != focal), max_size=n - 1, unique=True))
    style = draw(st.sampled_from(["plain", "plain", "with_focal", "repeated"]))
    if style == "with_focal":
        ak = ak + [focal]  # e.g. ak = list(G.nodes())
    elif style == "repeated" and ak:
        ak = ak + [ak[0]]
    # a substrate may carry self-loops (a generated network does, when a vertex is drawn twice into one motif): a
    # loop is one more edge of the induced subgraph, and connects nothing
    loops = draw(st.one_of(st.just([]), st.just([]), st.lists(st.integers(0, n - 1), unique=True, max_size=3)))
    # ... or parallel edges (a multigraph substrate): every copy is an edge of its own
    par = draw(st.one_of(st.just([]), st.just([]), st.just([]), st.lists(st.sampled_from(edges), min_size=1, max_size=2)))
    if par:
        return {"kind": "counter", "n": n, "multi": True,
                "edges": [[lab[a], lab[b]] for a, b in edges] + [[lab[b], lab[a]] for a, b in par] + [[lab[v], lab[v]] for v in loops],
                "nodes": lab, "focal": lab[focal], "ak": [lab[v] for v in ak]}
    return {"kind": "counter", "n": n, "edges": [[lab[a], lab[b]] for a, b in edges] + [[lab[v], lab[v]] for v in loops], "nodes": lab,
            "focal": lab[focal], "ak": [lab[v] for v in ak]}


def strategy(tier):
    return st.one_of(clique_history(tier), counter_case(tier), counter_case(tier))


GRID = [Fraction(a, b) for a, b in [(-1, 1), (-1, 2), (0, 1), (1, 4), (1, 3), (1, 2), (2, 3), (3, 4), (1, 1), (5, 4), (4, 3),
                                      (3, 2), (2, 1), (3, 1)]]


def is_poly_limitation(v):
    """a Violation that only says 'the exact polynomial type could not be pushed through this code' (division by a
    polynomial, negative power): not a verdict about the property -- fall back to exact rational evaluation."""
    return ":TypeError@" in v.kind or ":ValueError@" in v.kind


def val(x):
    return Poly.var(x[1]) if x[0] == "v" else Poly.const(Fraction(x[1], x[2]))


def cycle_closed(n, u, p):
    """exact expectation on the n-cycle with equal values u: the focal vertex's component is an arc of m <= n-2 further
    vertices bounded by two empty edges (m+1 positions), or the whole cycle (all n edges kept, or all but one)."""
    q = 1 - p
    return q * q * sum((m + 1) * (p * u) ** m for m in range(0, n - 1)) + u ** (n - 1) * (p ** n + n * p ** (n - 1) * q)


def clique_oracle(tau):
    unames = [f"u{i}" for i in range(1, tau)]
    if tau <= 6:
        nodes = list(range(tau))
        return oracles.percolation_poly(nodes, list(combinations(nodes, 2)), 0)
    return oracles.clique_poly(tau, unames)


_co = {}


def check(case):
    from gcmpy.message_passing.equations.clique_equation import clique_equation
    from gcmpy.message_passing.equations.chordless_cycle_equation import chordless_cycle_equation
    from gcmpy.message_passing.number_connected_graphs import Q, QQ, number_of_connected_graphs
    k = case["kind"]
    p = Poly.var("p")
    if k == "clique":
        tau = case["tau"]
        Hs = [Poly.var(f"u{i}") for i in range(1, tau)]
        got = call("clique_equation", clique_equation, tau, p, Hs)
        want = clique_oracle(tau)
        if tau <= 6 and oracles.clique_poly(tau, [f"u{i}" for i in range(1, tau)]) != want:
            raise RuntimeError("harness: vertex-subset oracle disagrees with brute force")
        if got != want:
            d = got - want
            raise Violation("clique-identity", f"clique_equation(tau={tau}) differs from the exact expectation on K_{tau}: "
                                               f"{len(d.t)} differing terms, e.g. {str(d)[:300]}")
        return {"nontrivial": tau >= 3, "classes": ["clique_table"]}
    if k == "clique_points":
        Hs = case["Hs"]
        tau = len(Hs) + 1
        base = _co.get(tau)
        if base is None:
            base = _co[tau] = clique_oracle(tau)
        for phi in (0.0, 0.25, 0.5, 0.9, 1.0):
            for order in (list(Hs), list(reversed(Hs))):
                got = call("clique_equation", clique_equation, tau, phi, list(order))
                w = base.subs({**{f"u{i + 1}": Fraction(h) for i, h in enumerate(order)}, "p": Fraction(phi)})
                if abs(float(got) - float(w)) > 1e-10 * max(1.0, abs(float(w))):
                    raise Violation("clique-special-point", f"clique_equation(tau={tau}, phi={phi}, Hs={order}) = {got!r}, exact "
                                                            f"expectation {float(w)!r}")
        import numpy as np
        if tau >= 3:
            for tag, mk in (("0-d arrays", lambda x: np.array(x)), ("vectors", lambda x: np.array([x, x / 2 + 0.25]))):
                arrs = [mk(h) for h in Hs]
                keep = [a.copy() for a in arrs]
                try:
                    got = call("clique_equation", clique_equation, tau, 0.35, arrs)
                except Violation as v_:
                    if is_poly_limitation(v_):
                        continue  # array-valued neighbour values not accepted: not applicable
                    raise
                gl = np.atleast_1d(np.asarray(got, dtype=float))
                for j in range(len(gl)):
                    hj = [float(np.atleast_1d(a)[j if a.ndim else 0]) for a in keep]
                    w = base.subs({**{f"u{i + 1}": Fraction(h) for i, h in enumerate(hj)}, "p": Fraction(0.35)})
                    if abs(float(gl[j]) - float(w)) > 1e-10 * max(1.0, abs(float(w))):
                        raise Violation("clique-special-point", f"clique_equation(tau={tau}, phi=0.35, Hs as {tag} {keep}) = {got!r}, exact "
                                                                f"expectation {float(w)!r} (component {j})")
                if any(not np.array_equal(a, b) for a, b in zip(arrs, keep)):
                    raise Violation("input-mutated", f"clique_equation(tau={tau}) changed the neighbour values handed over ({tag}): {keep} -> {arrs}")
        return {"nontrivial": tau >= 3, "classes": ["clique_special_points"]}
    if k == "long_cycle":
        n = case["n"]
        pts = [(3, 3), (2, 3), (2, -1), (-2, 2), (5, 1), (1, 7), (Fraction(1, 2), Fraction(1, 3)), (0.5, 0.25), (0.9, 0.99), (1.0, 1.0), (0.0, 0.5)]
        for m_ in (5, 8):  # the closed form itself against brute force
            full = oracles.percolation_poly(list(range(m_)), [(i, (i + 1) % m_) for i in range(m_)], 0)
            for u_, phi_ in pts[:7]:
                if compose(full, {f"u{i}": Poly.var("u") for i in range(m_)}).subs({"u": Fraction(u_), "p": Fraction(phi_)}) != cycle_closed(m_, Fraction(u_), Fraction(phi_)):
                    raise RuntimeError("harness: closed form of the cycle expectation disagrees with brute force")
        for u_, phi_ in pts:
            g = call("chordless_cycle_equation", chordless_cycle_equation, n, u_, phi_)
            w = cycle_closed(n, Fraction(u_), Fraction(phi_))
            if abs(Fraction(g) - w) > max(abs(w), 1) * Fraction(1, 10 ** 9):
                raise Violation("cycle-long", f"chordless_cycle_equation(n={n}, u={u_}, phi={phi_}) = {g!r}, exact value {float(w)!r}")
        return {"nontrivial": True, "classes": ["long_cycle"]}
    if k == "cycle":
        n = case["n"]
        nodes = list(range(n))
        full = oracles.percolation_poly(nodes, [(i, (i + 1) % n) for i in range(n)], 0)
        want = compose(full, {f"u{i}": Poly.var("u") for i in range(n)})
        try:
            got = call("chordless_cycle_equation", chordless_cycle_equation, n, Poly.var("u"), p)
        except Violation as v:
            if not is_poly_limitation(v):
                raise
            # exact evaluation on a grid of rationals (reciprocal pairs and values outside [0,1] included)
            for phi in GRID:
                for u in GRID:
                    try:
                        g = chordless_cycle_equation(n, u, phi)
                    except ZeroDivisionError:
                        continue
                    except Exception as e:
                        raise Violation("cycle-grid-raises", f"chordless_cycle_equation({n}, {u}, {phi}) raised {type(e).__name__}: {e}")
                    w = want.subs({"u": u, "p": phi})
                    if Fraction(g) != w if isinstance(g, (int, Fraction)) else abs(float(g) - float(w)) > 1e-9 * max(1.0, abs(float(w))):
                        raise Violation("cycle-identity-grid", f"chordless_cycle_equation(n={n}, u={u}, phi={phi}) = {g}, exact expectation {w}")
            return {"nontrivial": True, "classes": ["cycle_table", "rational_grid_fallback"]}
        if got != want:
            d = got - want
            raise Violation("cycle-identity", f"chordless_cycle_equation(n={n}) differs from the exact expectation on C_{n}: {str(d)[:300]}")
        # the same identity at integer points (plain Python ints: exact arithmetic, values far beyond 2**63 on long cycles)
        for u_, phi_ in ((3, 3), (2, 3), (2, -1), (-2, 2), (5, 1), (1, 7)):
            g = call("chordless_cycle_equation", chordless_cycle_equation, n, u_, phi_)
            w = want.subs({"u": Fraction(u_), "p": Fraction(phi_)})
            if abs(Fraction(g) - w) > abs(w) * Fraction(1, 10 ** 9):
                raise Violation("cycle-integer-point", f"chordless_cycle_equation(n={n}, u={u_}, phi={phi_}) = {g!r}, exact value {w}")
        return {"nontrivial": True, "classes": ["cycle_table"]}
    if k == "Q":
        n = case["n"]
        N = n * (n - 1) // 2
        nt = False
        for kk in range(-1, N + 2):
            got = call("Q", Q, n, kk)
            want = oracles.connected_count(n, kk)
            if got != want or isinstance(got, bool):
                raise Violation("Q-count", f"Q({n},{kk}) = {got!r}, number of connected labelled graphs = {want}")
            nt = nt or (n >= 4 and n - 1 < kk < N)
        return {"nontrivial": nt, "classes": ["Q_table"]}
    if k == "QQ":
        n = case["n"]
        N = n * (n - 1) // 2
        for kk in range(0, N + 1):
            got = call("QQ", QQ, n, kk)
            want = oracles.connected_count(n, kk)
            if got != want:
                raise Violation("QQ-count", f"QQ({n},{kk}) = {got!r}, number of connected labelled graphs = {want}")
        return {"nontrivial": n >= 4, "classes": ["QQ_table"]}
    if k == "refcheck":
        n = case["n"]
        N = n * (n - 1) // 2
        for kk in range(0, N + 1):
            if oracles.connected_count(n, kk) != oracles.connected_count_bruteforce(n, kk):
                raise RuntimeError(f"harness: reference recurrence wrong at ({n},{kk})")
        if oracles.connected_count(n, n - 1) != (n ** (n - 2) if n > 1 else 1):
            raise RuntimeError("harness: Cayley check failed")
        return {"nontrivial": False, "classes": ["reference_selfcheck"]}
    if k == "clique_history":
        nt = False
        for ci, c in enumerate(case["calls"]):
            tau = c["tau"]
            Hs = [val(h) for h in c["Hs"]]
            phi = val(c["phi"])
            got = call("clique_equation", clique_equation, tau, phi, list(Hs))
            base = _co.get(tau)
            if base is None:
                base = _co[tau] = clique_oracle(tau)
            want = compose(base, {**{f"u{i + 1}": h for i, h in enumerate(Hs)}, "p": phi})
            if not isinstance(got, Poly):
                got = Poly.const(Fraction(got))
            if got != want:
                raise Violation("clique-history", f"call {ci} clique_equation(tau={tau}, phi={c['phi']}, Hs={c['Hs']}) differs from the "
                                                  f"exact expectation; earlier calls {case['calls'][:ci]}")
            nt = nt or (tau >= 3 and len({tuple(h) for h in c["Hs"]}) < len(c["Hs"]))
        return {"nontrivial": nt and len(case["calls"]) >= 2, "classes": ["clique_history"]}
    # connected-subgraph counter
    import networkx as nx
    G = nx.MultiGraph() if case.get("multi") else nx.Graph()
    G.add_nodes_from(case["nodes"])
    G.add_edges_from(map(tuple, case["edges"]))
    keep = set(case["ak"]) | {case["focal"]}
    sub_edges = [tuple(e) for e in case["edges"] if e[0] in keep and e[1] in keep]
    from collections import Counter
    snap = (set(G.nodes()), Counter(frozenset(e) for e in G.edges()))
    for kk in range(0, len(sub_edges) + 1):
        got = call("number_of_connected_graphs", number_of_connected_graphs, G, list(case["ak"]), case["focal"], kk)
        want = oracles.count_connected_after_removal(sorted(keep, key=repr), sub_edges, kk)
        if got != want:
            raise Violation("counter", f"number_of_connected_graphs(edges={case['edges']}, ak={case['ak']}, i={case['focal']}, k={kk}) = {got}, "
                                       f"exact count {want}")
    if (set(G.nodes()), Counter(frozenset(e) for e in G.edges())) != snap:
        raise Violation("counter-mutates", "the substrate graph was modified")
    cyc = len(sub_edges) >= len(keep) >= 3
    cl = ["counter"]
    if any(e[0] == e[1] for e in sub_edges):
        cl.append("self_loop_in_induced_subgraph")
    if case.get("multi"):
        cl.append("multigraph_substrate")
    H = nx.Graph()
    H.add_nodes_from(keep)
    H.add_edges_from(sub_edges)
    if any(H.degree(v) == 0 for v in H) and len(keep) > 1:
        cl.append("isolated_in_induced_subgraph")
    return {"nontrivial": cyc, "classes": cl}
