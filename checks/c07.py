"""C07 -- split-degree and delta loaders preserve the overall degree law."""
import itertools

from hypothesis import strategies as st

from vlib.runner import Violation, call, clone_point
from checks.c06 import positive, close, compare, normalised

PID = "C07"
RULE = ("Hypothesis-generated (overall degree function as a positive table or a library distribution; 1..4 clique "
        "topologies with a probability vector summing to 1; degree range 0 <= low < high <= 12 (quick) / 20, plus short ranges around 250..400 for <= 2 topologies; probability vectors may contain exact zeros beyond the first entry; delta "
        "target inside, on the boundary of, or outside the range; loader split/delta; constructed directly or through "
        "the dispatcher). Oracle: independent enumeration of all splits (rel. 1e-9). Non-trivial = range with >= 2 "
        "degrees and >= 2 topologies; distinct = distinct canonical JSON")
ASSUMPTIONS = ["the upper end of the degree range may be read as exclusive or inclusive (read off the largest k present)"]
BUDGET = {"quick": (16, 200), "thorough": (16, 8000)}


@st.composite
def case_strategy(draw, tier):
    T = draw(st.integers(1, 4))
    raw = [draw(st.floats(0.05, 1.0)) for _ in range(T)]
    # exact zeros are legal probabilities; the first topology keeps positive mass so that every k has a split
    # of positive weight (otherwise "in proportion to" is undefined)
    for i in range(1, T):
        if draw(st.integers(0, 5)) == 5:
            raw[i] = 0.0
    s = sum(raw)
    probs = [x / s for x in raw]
    hi_max = 12 if tier == "quick" else 20
    low = draw(st.one_of(st.integers(0, 3), st.integers(0, hi_max - 1)))
    high = draw(st.integers(low + 1, hi_max))
    if T <= 2 and draw(st.integers(0, 7)) == 7:
        # large degrees (beyond CPython's small-int cache), short range
        low = draw(st.integers(250, 400))
        high = low + draw(st.integers(1, 4))
        hi_max = high
    fp = draw(st.one_of(
        st.fixed_dictionaries({"kind": st.just("table"), "seed": st.integers(0, 10 ** 6)}),
        st.fixed_dictionaries({"kind": st.just("exponential"), "a": st.floats(0.05, 2.0)}),
        st.fixed_dictionaries({"kind": st.just("poisson"), "m": st.floats(0.5, 8.0)})))
    if T == 2 and draw(st.integers(0, 11)) == 11:
        # degrees so large that the split weights p**(t*j) fall into the sub-normal float range: the result must
        # still be a finite distribution with the right mass per degree (compared at a relaxed tolerance there)
        low = draw(st.integers(1030, 1060))
        high = low + draw(st.integers(1, 3))
        probs = [0.5, 0.5]
    if low >= 100:
        # keep the degree function comfortably positive on the range (a Poisson with small mean underflows to 0
        # there, and a range of total mass 0 can not be normalised)
        fp = {"kind": "table", "seed": draw(st.integers(0, 10 ** 6))}
    loader = draw(st.sampled_from(["split", "split", "delta", "delta"]))
    if fp["kind"] == "table" and draw(st.integers(0, 3)) == 3:
        fp["int_until"] = draw(st.integers(1, 3))
    if fp["kind"] == "table" and low < 100 and draw(st.integers(0, 3)) == 3:
        # a degree function may vanish on some degrees inside the range (e.g. even degrees only)
        fp["zero_mod"] = draw(st.sampled_from([[2, 1], [3, 1], [3, 2]]))
    c = {"loader": loader, "path": draw(st.sampled_from(["class", "dispatch_enum", "dispatch_str"])),
         "probs": probs, "range": [low, high], "fp": fp,
         # the i-th clique topology spends i edges per member whatever sizes are declared for the generator
         "sizes": draw(st.sampled_from(["consecutive", "consecutive", "gapped"]))}
    if loader == "delta":
        c["target"] = draw(st.one_of(st.integers(low, high), st.integers(min(low + 1, high), max(low, high - 2)) if high - 2 >= low + 1 else st.integers(low, high), st.integers(0, hi_max + 2)))
    return c


def strategy(tier):
    return case_strategy(tier)


def enumerated(tier, seed):
    """delta loader whose pure split of the target has weight exactly 0.0 (first-topology probability 0, or its power
    underflowing) while other splits carry the target's mass; the lower end of each range has an admissible split of
    positive weight too (the check also probes the loader with the target placed there)"""
    out = []
    for i, (probs, rng_, target) in enumerate([([0.0, 1.0], [2, 9], 4), ([0.0, 0.5, 0.5], [2, 8], 5), ([0.0, 0.5, 0.5], [2, 9], 2),
                                               ([0.01, 0.99], [196, 204], 200), ([0.0, 1.0], [4, 7], 6)]):
        for path in ("class", "dispatch_str"):
            out.append({"loader": "delta", "path": path, "probs": probs, "range": rng_, "fp": {"kind": "table", "seed": seed + i},
                        "sizes": "consecutive", "target": target})
    return out


def splits(k, T):
    """all (j_1..j_T) with sum_t t*j_t = k (own recursion, highest topology first)."""
    def rec(rem, t):
        if t == 1:
            yield (rem,)
            return
        for x in range(rem // t + 1):
            for rest in rec(rem - x * t, t - 1):
                yield rest + (x,)
    return rec(k, T)


def check(case):
    from gcmpy import (JointDegreeNames as JN, JointDegreeSplitDegree, JointDegreeDelta, JointDegreeDistribution,
                       JointDegreeType, exponential, poisson)
    T = len(case["probs"])
    low, high = case["range"]
    spec = case["fp"]
    if spec["kind"] == "table":
        zm = spec.get("zero_mod")
        iu = spec.get("int_until", 0)  # a tabulated, unnormalised law may hold plain ints next to floats

        def f(k, s=spec["seed"]):
            if zm and int(k) % zm[0] == zm[1]:
                return 0.0 if not iu else 0
            if int(k) < low + iu:
                return 1 + (s + int(k)) % 3
            return positive(s, int(k))
    elif spec["kind"] == "exponential":
        f = exponential(spec["a"])
    else:
        f = poisson(spec["m"])
    msizes = list(range(2, T + 2)) if case.get("sizes") != "gapped" else [2 + 2 * i for i in range(T)]
    p = {JN.FP: f, JN.PROBS: list(case["probs"]), JN.MOTIF_SIZES: msizes,
         JN.LOW_HIGH_DEGREE_BOUND: (low, high)}
    if case["loader"] == "delta":
        p[JN.TARGET_K] = case["target"]
        cls, typ = JointDegreeDelta, JointDegreeType.DELTA
    else:
        cls, typ = JointDegreeSplitDegree, JointDegreeType.SPLIT_DEGREE
    if sum(float(f(k)) for k in range(low, high)) == 0.0:
        # a degree function that vanishes on the whole range describes no distribution: outside the domain
        return {"nontrivial": False, "classes": ["degenerate_zero_function"]}
    if case["path"] == "class":
        obj = call("construct", cls, p)
    else:
        p[JN.JOINT_DEGREE_TYPE] = typ if case["path"] == "dispatch_enum" else typ.value
        obj = call("dispatch", JointDegreeDistribution.load_joint_degree, p)
    obj = clone_point(obj, case)
    if not isinstance(obj, cls):
        raise Violation("dispatch-class", f"built {type(obj).__name__}")
    jdd = obj.jdd
    for k, v in jdd.items():
        if not (isinstance(k, tuple) and len(k) == T) or not v >= 0:
            raise Violation("malformed", f"entry {k!r}: {v!r}")
    if not close(sum(jdd.values()), 1.0):
        raise Violation("sum", f"masses sum to {sum(jdd.values())!r}")
    used = lambda j: sum(t * x for t, x in zip(range(1, T + 1), j))
    kmax = max(used(j) for j in jdd)
    if kmax not in (high - 1, high):
        raise Violation("range-top", f"largest overall degree present is {kmax}, range is {case['range']}")
    if case["loader"] == "delta":
        # how the upper end is read must not depend on the target: probe the same loader with the target at
        # the bottom of the range (inside under either reading)
        q = dict(p)
        q[JN.TARGET_K] = low
        q.pop(JN.JOINT_DEGREE_TYPE, None)
        probe = call("construct-probe", JointDegreeDelta, q)
        ptop = max(used(j) for j in probe.jdd)
        if ptop != kmax:
            raise Violation("range-top-depends-on-target", f"with target {case['target']} the largest overall degree is {kmax}, "
                                                           f"with target {low} it is {ptop} (range {case['range']})")
    ks = list(range(low, kmax + 1))
    want = {}
    for k in ks:
        fk = float(f(k))
        if case["loader"] == "delta" and k != case["target"]:
            want[(k,) + (0,) * (T - 1)] = want.get((k,) + (0,) * (T - 1), 0.0) + fk
            continue
        js = list(splits(k, T))
        ws = []
        for j in js:
            w = 1.0
            for t, x in zip(range(1, T + 1), j):
                w *= case["probs"][t - 1] ** (t * x)
            ws.append(w)
        tot = sum(ws)
        for j, w in zip(js, ws):
            want[j] = want.get(j, 0.0) + fk * w / tot
    want = normalised(want)
    # the statement's own clauses first (clearer messages), then the full table
    Z = sum(float(f(k)) for k in ks)
    for k in ks:
        mass = sum(v for j, v in jdd.items() if used(j) == k)
        if not (close(mass, float(f(k)) / Z) or (low >= 1000 and abs(mass - float(f(k)) / Z) <= 1e-2 * float(f(k)) / Z)):
            raise Violation("mass-per-degree", f"total mass of joint degrees using {k} edges is {mass!r}, "
                                               f"degree function prescribes {float(f(k)) / Z!r} (range {case['range']})")
    if low >= 1000:
        # sub-normal weights carry only a few significant bits: compare at 1e-2 (relative)
        for k_ in set(jdd) | set(want):
            g_, w_ = jdd.get(k_, 0.0), want.get(k_, 0.0)
            if not (abs(g_ - w_) <= 1e-2 * max(abs(w_), 1e-12) + 1e-9):
                raise Violation("split-law-subnormal", f"mass at {k_}: loader {g_!r}, documented law {w_!r} (range {case['range']})")
    else:
        compare(jdd, want, "split-law")
    classes = {"loader_" + case["loader"], "path_" + case["path"], f"T{T}"}
    if case["loader"] == "delta":
        t = case["target"]
        classes.add("target_inside" if low < t < kmax else ("target_boundary" if t in (low, kmax, high) else "target_outside"))
    return {"nontrivial": len(ks) >= 2 and T >= 2, "classes": sorted(classes)}
