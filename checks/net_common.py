"""Clean annotated motif networks (shared by C11, C12, C13, C14).

case fragment: {"N": int, "topos": [{"kind": "clique"|"cycle", "size": s, "name": str}],
                "motifs": [[topology index, [vertices...]], ...]}
Every motif sits on distinct vertices, motifs are pairwise edge-disjoint (enforced constructively: a drawn motif
that would reuse an edge is dropped).  Vertex joint degree = number of motifs of each topology containing it.
"""
from itertools import combinations

from hypothesis import strategies as st


class Tag:
    """an annotation value that compares by identity"""
    def __init__(self, v):
        self.v = v

    def __repr__(self):
        return f"<Tag {self.v}>"


def motif_edges(kind, vs):
    if kind in ("clique", "split4"):
        return [tuple(p) for p in combinations(vs, 2)]
    if kind == "path3":
        return [(vs[0], vs[1]), (vs[1], vs[2])]
    n = len(vs)
    return [(vs[i], vs[(i + 1) % n]) for i in range(n)]


def topo_names(t):
    """edge-topology names used inside one motif of topology t (most motifs: one name)."""
    return list(t.get("names") or [t["name"]])


def motif_edges_named(t, vs):
    """[(u, v, edge name)].  'split4' is a 4-clique on [q1, p1, p2, q2] whose edges carry two names: the path
    q1-p1-p2-q2 is 'strong', the complementary path p1-q2-q1-p2 is 'weak' (two vertex roles with the same corner
    size and name set but different multiplicities), as the custom-motif generator can produce."""
    if t["kind"] == "split4":
        q1, p1, p2, q2 = vs
        s, w = topo_names(t)
        return [(q1, p1, s), (p1, p2, s), (p2, q2, s), (q1, p2, w), (q1, q2, w), (p1, q2, w)]
    if t["kind"] == "path3":
        # x -red- h -blue- y: the hub's corner carries one edge of each of two topologies
        x, h, y = vs
        r, b = topo_names(t)
        return [(x, h, r), (h, y, b)]
    nm = topo_names(t)[0]
    return [(u, v, nm) for u, v in motif_edges(t["kind"], vs)]


@st.composite
def clean_network(draw, maxN=40, minN=6, max_motifs=60, topo_pool=None, min_topos=1, max_topos=3, name_style=None,
                  min_motifs=1, min_rounds=1):
    pool = topo_pool or [("clique", 2), ("clique", 3), ("clique", 4), ("cycle", 4), ("cycle", 5)]
    T = draw(st.integers(min_topos, max_topos))
    chosen = draw(st.lists(st.sampled_from(pool), min_size=T, max_size=T, unique=True))
    style = name_style or draw(st.sampled_from(["plain", "plain", "odd"]))
    topos = []
    for i, (k, s) in enumerate(chosen):
        name = f"{s}-{k}" if style == "plain" else f"{s}-{k}-blue#{i}"
        t = {"kind": k, "size": s, "name": name}
        if k == "split4":
            t["names"] = [name + "-strong", name + "-weak"]
        if k == "path3":
            t["names"] = [name + "-red", name + "-blue"]
        topos.append(t)
    N = draw(st.integers(max(minN, max(s for _, s in chosen)), maxN))
    used = set()
    motifs = []
    # rounds: in each round a random permutation of the vertices is cut into consecutive blocks, one motif per
    # block (vertex-disjoint within a round); later rounds overlap earlier ones in vertices, never in edges
    # (a block that would reuse an edge is dropped).  Gives many motifs and heterogeneous joint degrees.
    rounds = draw(st.integers(min_rounds, 4))
    import random as _random
    pseed = draw(st.integers(0, 2 ** 20))
    rnd = -1
    while rnd + 1 < rounds or (len(motifs) < min_motifs and rnd < 8):
        rnd += 1
        # vertex order of this round: a deterministic expansion of one drawn integer (reproducible from the case;
        # avoids the highly regular networks that identity permutations give, on which no swap can change anything)
        perm = list(range(N))
        _random.Random(pseed * 7 + rnd).shuffle(perm)
        pos = 0
        # later rounds cover only part of the vertices, so joint degrees are heterogeneous even for the
        # simplest draws (needed for any rewiring swap to change the mixing)
        reach = N if rnd == 0 else min(N, N // (rnd + 1) + draw(st.integers(0, N)))
        while len(motifs) < max_motifs:
            ti = draw(st.integers(0, T - 1))
            s = topos[ti]["size"]
            if pos + s > reach:
                break
            vs = perm[pos:pos + s]
            pos += s
            if len(motifs) >= min_motifs and draw(st.integers(0, 4)) == 4:
                continue  # leave these vertices out of this round
            es = {frozenset(e) for e in motif_edges(topos[ti]["kind"], vs)}
            if es & used:
                continue
            used |= es
            motifs.append([ti, vs])
    return {"N": N, "topos": topos, "motifs": motifs}


def joint_degrees(case):
    """one column per edge-topology name; a vertex counts the motifs in which it has an edge of that name."""
    nms = names(case)
    col = {n: i for i, n in enumerate(nms)}
    jds = [[0] * len(nms) for _ in range(case["N"])]
    for ti, vs in case["motifs"]:
        t = case["topos"][ti]
        seen = set()
        for u, v, nm in motif_edges_named(t, vs):
            for w in (u, v):
                if (w, nm) not in seen:
                    seen.add((w, nm))
                    jds[w][col[nm]] += 1
    return [tuple(r) for r in jds]


def build_graph(case, graph_cls=None):
    """nx.Graph (or subclass) with joint_degree / topology / motif_ids annotations."""
    import networkx as nx
    from gcmpy import NetworkNames as NN
    G = (graph_cls or nx.Graph)()
    jds = joint_degrees(case)
    if case.get("node_order") != "by_motifs":
        # vertices registered 0..N-1 first (as EdgeListToNetwork does); otherwise they enter the graph in the
        # order the motif list mentions them, so networkx reports some edges as (larger, smaller)
        for v in range(case["N"]):
            G.add_node(v)
    for mid, (ti, vs) in enumerate(case["motifs"]):
        t = case["topos"][ti]
        for u, v, nm in motif_edges_named(t, vs):
            G.add_edge(u, v)
            G.edges[u, v][NN.TOPOLOGY] = nm
            G.edges[u, v][NN.MOTIF_IDS] = mid
    for v in range(case["N"]):
        G.add_node(v)
        # annotations are tuples as the generators write them, or lists (a network converted from a joint degree
        # sequence given as lists)
        if case.get("jd_type") == "list":
            G.nodes[v][NN.JOINT_DEGREE] = list(jds[v])
        elif case.get("jd_type") == "ndarray":
            import numpy as np
            G.nodes[v][NN.JOINT_DEGREE] = np.array(jds[v])
        else:
            G.nodes[v][NN.JOINT_DEGREE] = jds[v]
        if case.get("tagged"):
            # further vertex annotations may be arbitrary objects (compared by identity)
            G.nodes[v]["owner"] = Tag(v)
    return G, jds


def names(case):
    out = []
    for t in case["topos"]:
        out.extend(topo_names(t))
    return out
