"""Clean annotated motif networks (shared by C11, C12, C13, C14).

case fragment: {"N": int, "topos": [{"kind": "clique"|"cycle", "size": s, "name": str}],
                "motifs": [[topology index, [vertices...]], ...]}
Every motif sits on distinct vertices, motifs are pairwise edge-disjoint (enforced constructively: a drawn motif
that would reuse an edge is dropped).  Vertex joint degree = number of motifs of each topology containing it.
"""
from itertools import combinations

from hypothesis import strategies as st


def motif_edges(kind, vs):
    if kind == "clique":
        return [tuple(p) for p in combinations(vs, 2)]
    n = len(vs)
    return [(vs[i], vs[(i + 1) % n]) for i in range(n)]


@st.composite
def clean_network(draw, maxN=40, minN=6, max_motifs=60, topo_pool=None, min_topos=1, max_topos=3, name_style=None):
    pool = topo_pool or [("clique", 2), ("clique", 3), ("clique", 4), ("cycle", 4), ("cycle", 5)]
    T = draw(st.integers(min_topos, max_topos))
    chosen = draw(st.lists(st.sampled_from(pool), min_size=T, max_size=T, unique=True))
    style = name_style or draw(st.sampled_from(["plain", "plain", "odd"]))
    topos = []
    for i, (k, s) in enumerate(chosen):
        name = f"{s}-{k}" if style == "plain" else f"{s}-{k}-blue#{i}"
        topos.append({"kind": k, "size": s, "name": name})
    N = draw(st.integers(max(minN, max(s for _, s in chosen)), maxN))
    nm = draw(st.integers(1, max_motifs))
    used = set()
    motifs = []
    for _ in range(nm):
        ti = draw(st.integers(0, T - 1))
        s = topos[ti]["size"]
        vs = draw(st.lists(st.integers(0, N - 1), min_size=s, max_size=s, unique=True))
        es = {frozenset(e) for e in motif_edges(topos[ti]["kind"], vs)}
        if es & used:
            continue
        used |= es
        motifs.append([ti, vs])
    return {"N": N, "topos": topos, "motifs": motifs}


def joint_degrees(case):
    T = len(case["topos"])
    jds = [[0] * T for _ in range(case["N"])]
    for ti, vs in case["motifs"]:
        for v in vs:
            jds[v][ti] += 1
    return [tuple(r) for r in jds]


def build_graph(case, graph_cls=None):
    """nx.Graph (or subclass) with joint_degree / topology / motif_ids annotations."""
    import networkx as nx
    from gcmpy import NetworkNames as NN
    G = (graph_cls or nx.Graph)()
    jds = joint_degrees(case)
    for v in range(case["N"]):
        G.add_node(v, **{})
        G.nodes[v][NN.JOINT_DEGREE] = jds[v]
    for mid, (ti, vs) in enumerate(case["motifs"]):
        t = case["topos"][ti]
        for u, v in motif_edges(t["kind"], vs):
            G.add_edge(u, v)
            G.edges[u, v][NN.TOPOLOGY] = t["name"]
            G.edges[u, v][NN.MOTIF_IDS] = mid
    return G, jds


def names(case):
    return [t["name"] for t in case["topos"]]
