"""Clean annotated motif networks (shared by C11, C12, C13, C14).

case fragment: {"N": int, "topos": [{"kind": "clique"|"cycle", "size": s, "name": str}],
                "motifs": [[topology index, [vertices...]], ...]}
Every motif sits on distinct vertices, motifs are pairwise edge-disjoint (enforced constructively: a drawn motif
that would reuse an edge is dropped).  Vertex joint degree = number of motifs of each topology containing it.
"""
from itertools import combinations

from hypothesis import strategies as st


def motif_edges(kind, vs):
    if kind == "clique":
        return [tuple(p) for p in combinations(vs, 2)]
    n = len(vs)
    return [(vs[i], vs[(i + 1) % n]) for i in range(n)]


@st.composite
def clean_network(draw, maxN=40, minN=6, max_motifs=60, topo_pool=None, min_topos=1, max_topos=3, name_style=None,
                  min_motifs=1, min_rounds=1):
    pool = topo_pool or [("clique", 2), ("clique", 3), ("clique", 4), ("cycle", 4), ("cycle", 5)]
    T = draw(st.integers(min_topos, max_topos))
    chosen = draw(st.lists(st.sampled_from(pool), min_size=T, max_size=T, unique=True))
    style = name_style or draw(st.sampled_from(["plain", "plain", "odd"]))
    topos = []
    for i, (k, s) in enumerate(chosen):
        name = f"{s}-{k}" if style == "plain" else f"{s}-{k}-blue#{i}"
        topos.append({"kind": k, "size": s, "name": name})
    N = draw(st.integers(max(minN, max(s for _, s in chosen)), maxN))
    used = set()
    motifs = []
    # rounds: in each round a random permutation of the vertices is cut into consecutive blocks, one motif per
    # block (vertex-disjoint within a round); later rounds overlap earlier ones in vertices, never in edges
    # (a block that would reuse an edge is dropped).  Gives many motifs and heterogeneous joint degrees.
    rounds = draw(st.integers(min_rounds, 4))
    import random as _random
    pseed = draw(st.integers(0, 2 ** 20))
    rnd = -1
    while rnd + 1 < rounds or (len(motifs) < min_motifs and rnd < 8):
        rnd += 1
        # vertex order of this round: a deterministic expansion of one drawn integer (reproducible from the case;
        # avoids the highly regular networks that identity permutations give, on which no swap can change anything)
        perm = list(range(N))
        _random.Random(pseed * 7 + rnd).shuffle(perm)
        pos = 0
        # later rounds cover only part of the vertices, so joint degrees are heterogeneous even for the
        # simplest draws (needed for any rewiring swap to change the mixing)
        reach = N if rnd == 0 else min(N, N // (rnd + 1) + draw(st.integers(0, N)))
        while len(motifs) < max_motifs:
            ti = draw(st.integers(0, T - 1))
            s = topos[ti]["size"]
            if pos + s > reach:
                break
            vs = perm[pos:pos + s]
            pos += s
            if len(motifs) >= min_motifs and draw(st.integers(0, 4)) == 4:
                continue  # leave these vertices out of this round
            es = {frozenset(e) for e in motif_edges(topos[ti]["kind"], vs)}
            if es & used:
                continue
            used |= es
            motifs.append([ti, vs])
    return {"N": N, "topos": topos, "motifs": motifs}


def joint_degrees(case):
    T = len(case["topos"])
    jds = [[0] * T for _ in range(case["N"])]
    for ti, vs in case["motifs"]:
        for v in vs:
            jds[v][ti] += 1
    return [tuple(r) for r in jds]


def build_graph(case, graph_cls=None):
    """nx.Graph (or subclass) with joint_degree / topology / motif_ids annotations."""
    import networkx as nx
    from gcmpy import NetworkNames as NN
    G = (graph_cls or nx.Graph)()
    jds = joint_degrees(case)
    for v in range(case["N"]):
        G.add_node(v, **{})
        G.nodes[v][NN.JOINT_DEGREE] = jds[v]
    for mid, (ti, vs) in enumerate(case["motifs"]):
        t = case["topos"][ti]
        for u, v in motif_edges(t["kind"], vs):
            G.add_edge(u, v)
            G.edges[u, v][NN.TOPOLOGY] = t["name"]
            G.edges[u, v][NN.MOTIF_IDS] = mid
    return G, jds


def names(case):
    return [t["name"] for t in case["topos"]]
