#!/bin/sh
# usage: tools/mutant.sh <patch.diff> <check-id> [tier]   -- applies patch to a scratch copy of /repo HEAD, runs the check there
set -e
D=$(mktemp -d /tmp/mutXXXXXX)
git -C /repo archive HEAD | tar -x -C "$D"
( cd "$D" && git apply --unsafe-paths -p1 "$1" 2>/dev/null || patch -s -p1 < "$1" )
shift
PID=$1; TIER=${2:-quick}
VERIF_REPLAY_DIR="$D/replays" VERIF_REPO="$D" /verif/check "$PID" --tier "$TIER" --no-evidence | grep -E "VIOLATION|HARNESS|evaluations|^  \[" | head -8
rm -rf "$D"
