#!/bin/sh
# for every seeded change: apply it to a scratch copy of /repo HEAD and run the property's quick check at several seeds;
# (ONLY=<glob of seed dir names>, e.g. ONLY="C02-*", restricts the set)
# prints "<seed-dir> seed=<s> detected|MISSED"
cd "$(dirname "$0")/.."
V=$(pwd)
for d in seeded/${ONLY:-*}/; do
  name=$(basename "$d"); pid=${name%%-*}
  D=$(mktemp -d /tmp/smXXXXXX)
  git -C /repo archive HEAD | tar -x -C "$D"
  if ! (cd "$D" && git apply --unsafe-paths -p1 "$V/$d/patch.diff" 2>/dev/null); then echo "$name NOAPPLY"; rm -rf "$D"; continue; fi
  for s in ${SEEDS:-1 2 3}; do
    out=$(VERIF_REPLAY_DIR="$D/replays" VERIF_REPO="$D" VERIF_SEED=$s ./check "$pid" --tier quick --no-evidence 2>&1)
    if echo "$out" | grep -q "^VIOLATION property=$pid"; then echo "$name seed=$s detected"; else echo "$name seed=$s MISSED $(echo "$out" | grep -E 'HARNESS' | head -1 | cut -c1-100)"; fi
  done
  rm -rf "$D"
done
