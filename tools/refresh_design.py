#!/usr/bin/env python3
"""re-inserts notes/design_section10.md (with the current seeded-change table) at the end of DESIGN.md"""
import subprocess, os
V = os.path.dirname(os.path.dirname(os.path.abspath(__file__)))
p = os.path.join(V, "DESIGN.md"); s = open(p).read()
sec = open(os.path.join(V, "notes", "design_section10.md")).read()
table = subprocess.check_output(["python3", os.path.join(V, "tools", "seed_table.py")]).decode()
sec = sec.replace("SEED_TABLE_PLACEHOLDER", table)
marker = "\n--------------------------------------------------------------------------------------\n\n## 10. As built"
if marker in s:
    s = s[:s.index(marker)]
open(p, "w").write(s.rstrip("\n") + "\n" + sec)
print("DESIGN.md refreshed:", len(s.splitlines()), "+", len(sec.splitlines()), "lines")
