#!/usr/bin/env python3
"""usage: tools/import_seed.py C03/A [C03/B ...] -- copy a verified seeded change into /verif/seeded/<id>-<x>/ and
record what was run (verification log) and which check catches it (runs the property's quick check on a scratch copy)."""
import json, os, re, shutil, subprocess, sys, tempfile
VERIF = os.path.dirname(os.path.dirname(os.path.abspath(__file__)))
SRC = os.environ.get("SEED_SRC", "/tmp/seed_out")
LOGS = os.environ.get("SEED_LOGS", "/tmp/vlogs")
RENAME = dict(kv.split("=") for kv in os.environ.get("SEED_RENAME", "").split(",") if kv)
for s in sys.argv[1:]:
    pid, x0 = s.split("/")
    src = f"{SRC}/{s}"
    x = RENAME.get(x0, x0)
    dst = os.path.join(VERIF, "seeded", f"{pid}-{x}")
    os.makedirs(dst, exist_ok=True)
    shutil.copy(f"{src}/patch.diff", dst)
    shutil.copy(f"{src}/demo.py", dst)
    meta = json.load(open(f"{src}/meta.json"))
    log = open(f"{LOGS}/{pid}_{x0}.log").read()
    ver = {k: v for k, v in re.findall(r"^(\w+)=(.*)$", log, flags=re.M)}
    suite = re.findall(r"suite: (.*(?:passed|failed).*)$", log, flags=re.M)
    d = tempfile.mkdtemp(prefix="/tmp/mut")
    subprocess.run(f"git -C /repo archive HEAD | tar -x -C {d}", shell=True, check=True)
    ap = subprocess.run(f"cd {d} && git apply --unsafe-paths -p1 {dst}/patch.diff", shell=True)
    out = subprocess.run([os.path.join(VERIF, "check"), pid, "--tier", "quick", "--no-evidence"],
                         env={**os.environ, "VERIF_REPO": d}, capture_output=True, text=True).stdout
    shutil.rmtree(d); shutil.rmtree(os.path.join(VERIF, "replays"), ignore_errors=True)
    kinds = re.findall(r"^  \[([^\]]+)\]", out, flags=re.M)
    meta.update({
        "property": pid,
        "confirmed_by_me": {
            "scratch_base_commit": ver.get("seed", "").split("base=")[-1] if "base=" in ver.get("seed", "") else ver.get("base", ""),
            "demo_exit_without_change": ver.get("demo_without_change_exit"),
            "demo_exit_with_change": ver.get("demo_with_change_exit"),
            "patch_applies": ver.get("patch_applies"),
            "existing_suite_with_change": suite[-1] if suite else "?",
            "note": "4 failed = the baseline's own always-failing Poisson tests (scratch base predates the poisson fix)" if suite and "4 failed" in suite[-1] else "",
            "how": "tools/verify_seed.sh: scratch archive of /repo at the base commit; demo.py before/after `git apply patch.diff`; full pytest suite with the change",
        },
        "applies_to_current_repo_head": ap.returncode == 0,
        "detected_by_quick_check": bool(re.search(r"^VIOLATION property=" + pid, out, flags=re.M)),
        "violation_kinds_reported": sorted(set(kinds)),
    })
    json.dump(meta, open(os.path.join(dst, "meta.json"), "w"), indent=1)
    print(s, "detected" if meta["detected_by_quick_check"] else "MISSED", sorted(set(kinds))[:3], "applies" if ap.returncode == 0 else "NOAPPLY")
