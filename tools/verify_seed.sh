#!/bin/sh
# usage: tools/verify_seed.sh <seed_dir containing patch.diff demo.py> <out.log> [base-commit]
# Confirms in a scratch worktree: demo passes without the change, fails with it, existing suite still passes with it.
S=$1; LOG=$2; BASE=${3:-HEAD}
D=$(mktemp -d /tmp/vseedXXXXXX)
git -C /repo archive $BASE | tar -x -C "$D"
cd "$D"
{
echo "seed=$S base=$(git -C /repo rev-parse --short $BASE)"
/venv/bin/python -W ignore "$S/demo.py" >/dev/null 2>&1; echo "demo_without_change_exit=$?"
if git apply --unsafe-paths -p1 "$S/patch.diff" 2>/dev/null || patch -s -p1 < "$S/patch.diff"; then echo "patch_applies=yes"; else echo "patch_applies=NO"; fi
/venv/bin/python -W ignore "$S/demo.py" > demo.out 2>&1; echo "demo_with_change_exit=$?"; tail -3 demo.out | sed 's/^/   demo: /'
/venv/bin/python -m pytest -q -p no:cacheprovider --timeout=900 test 2>&1 | tail -8 | grep -E "passed|failed|FAILED|error" | sed 's/^/   suite: /'
} > "$LOG" 2>&1
cd /; rm -rf "$D"
