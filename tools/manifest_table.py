# executed by gen_manifest.py:  reg(pid, technique, level text, level note)
EXPL = "generated-input search with an explicit oracle; assurance = the property held on every generated / enumerated case reported in the evidence file, nothing beyond"

reg("C20",
    "model-based property testing over generated operation histories (Hypothesis), scripted RNG for draws",
    "Every generated add/remove/draw/contains history is executed on a DrawSet and on a model set; len, iteration, "
    "membership agree after every step and an index sweep through the scripted RNG shows every member drawable. " + EXPL,
    "trusts Python's list/set as the model, and that DrawSet.draw takes its randomness from the stdlib random module")

reg("C01",
    "property-based testing (Hypothesis) with journalling build callbacks; multiset identity oracle; seeded and scripted RNG schedules",
    "For every generated (joint degree sequence, motif configuration, algorithm, construction path, RNG schedule) the "
    "journal of callback calls is compared with the requested sequence: instance counts, slot sizes, per-orbit stub "
    "multisets, untouched input, carried-through sequence, network node/edge sets. " + EXPL,
    "trusts the journalling wrappers and networkx; RNG outcomes are explored by seeds and generated integer scripts, not exhaustively")

reg("C02",
    "property-based testing (Hypothesis); oracle = callback journal vs. the three columns grouped by motif id",
    "Column lengths, pair-typed edges, contiguous unique motif ids equal to the journalled callback returns, and "
    "names per edge are checked on every generated case incl. bare-edge, two-edge and k-edge motifs. " + EXPL,
    "bare-edge callbacks are paired with bare-string names (suite convention); network variant checked through edge attributes")

reg("C04",
    "property-based testing (Hypothesis): forward / backward / round-trip oracles on generated and synthetic edge lists",
    "Node set, annotations, pair<->edge equivalence, unique-pair attributes, reverse conversion and round trip are "
    "compared with independent dictionary snapshots on generator-produced and synthetic edge lists with self-loops, "
    "repeated pairs and isolated vertices. " + EXPL,
    "for repeated pairs only membership of the carried (name,id) among the candidate rows is asserted")

reg("C03",
    "exhaustive enumeration of the RNG decision tree (exact output distribution as Fractions) over an enumerated family of joint degree sequences plus Hypothesis-generated shapes; seeded chi-square for large sequences",
    "For every small joint degree sequence of the enumerated family and every generated shape under the leaf cap, the "
    "complete tree of integer draws of the generator is walked and the exact probability of every ordered stub "
    "sequence is compared with the uniform law on the product of multiset permutations (all present, all equal). " + EXPL,
    "exactness relies on the generators drawing only through the stdlib random instance's integer source; large "
    "sequences are only sampled (chi-square at p<1e-9)")
