# executed by gen_manifest.py:  reg(pid, technique, level text, level note)
EXPL = "generated-input search with an explicit oracle; assurance = the property held on every generated / enumerated case reported in the evidence file, nothing beyond"

reg("C20",
    "model-based property testing over generated operation histories (Hypothesis), scripted RNG for draws",
    "Every generated add/remove/draw/contains history is executed on a DrawSet and on a model set; len, iteration, "
    "membership agree after every step and an index sweep through the scripted RNG shows every member drawable. " + EXPL,
    "trusts Python's list/set as the model, and that DrawSet.draw takes its randomness from the stdlib random module")
