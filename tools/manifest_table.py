# executed by gen_manifest.py:  reg(pid, technique, level text, level note)
EXPL = "generated-input search with an explicit oracle (a tenth of the cases under each of four process configurations, a seventh continued on a shallow copy of the library object in use, plus a reduced pass under python -O); assurance = the property held on every generated / enumerated case reported in the evidence file, nothing beyond"

reg("C20",
    "model-based property testing over generated operation histories (Hypothesis), scripted RNG for draws",
    "Every generated add/remove/draw/contains history is executed on a DrawSet and on a model set; len, iteration, "
    "membership agree after every step and an index sweep through the scripted RNG shows every member drawable. " + EXPL,
    "trusts Python's list/set as the model, and that DrawSet.draw takes its randomness from the stdlib random module")

reg("C01",
    "property-based testing (Hypothesis) with journalling build callbacks; multiset identity oracle; seeded and scripted RNG schedules",
    "For every generated (joint degree sequence, motif configuration, algorithm, construction path, RNG schedule) the "
    "journal of callback calls is compared with the requested sequence: instance counts, slot sizes, per-orbit stub "
    "multisets, untouched input, carried-through sequence, network node/edge sets. " + EXPL,
    "trusts the journalling wrappers and networkx; RNG outcomes are explored by seeds and generated integer scripts, not exhaustively")

reg("C02",
    "property-based testing (Hypothesis); oracle = callback journal vs. the three columns grouped by motif id",
    "Column lengths, pair-typed edges, and -- as multisets per motif id, whatever the order or orientation of the rows -- "
    "the rows and names of every id against one journalled callback return are checked on every generated case incl. "
    "bare-edge, two-edge and k-edge motifs. " + EXPL,
    "bare-edge callbacks are paired with bare-string names (suite convention); network variant checked through edge attributes")

reg("C04",
    "property-based testing (Hypothesis): forward / backward / round-trip oracles on generated and synthetic edge lists",
    "Node set, annotations, pair<->edge equivalence, unique-pair attributes, reverse conversion and round trip are "
    "compared with independent dictionary snapshots on generator-produced and synthetic edge lists with self-loops, "
    "repeated pairs and isolated vertices. " + EXPL,
    "for repeated pairs only membership of the carried (name,id) among the candidate rows is asserted")

reg("C03",
    "exhaustive enumeration of the RNG decision tree (exact output distribution as Fractions) over an enumerated family of joint degree sequences plus Hypothesis-generated shapes; seeded chi-square for large sequences",
    "For every small joint degree sequence of the enumerated family and every generated shape under the leaf cap, the "
    "complete tree of integer draws of the generator is walked and the exact probability of every ordered stub "
    "sequence filling complete motifs is compared with the exact law of uniform stub matching (uniform on the multiset "
    "permutations when the handshake condition holds: all present, all equal); an entropy bound on the scripted RNG "
    "decides reachability on spaces too large to sample. " + EXPL,
    "exactness relies on the generators drawing only through the stdlib random instance's integer source; large "
    "sequences are only sampled (chi-square at p<1e-9)")

reg("C05",
    "property-based testing (Hypothesis) with a passive spy on the raw weighted draw; existence-of-decomposition predicate as fallback; seeded chi-square for the weights",
    "Structure (length, tuple entries, arity, non-negativity, divisibility), minimal perturbation (exact stub counts "
    "added per topology, never a removal) and usability (empirical loader, fast generator) are asserted on every "
    "generated distribution/size/N/seed; key frequencies by chi-square at p<1e-9. " + EXPL,
    "the minimal-perturbation clause is exact when the draw goes through random.choices (observed, not altered)")

reg("C06",
    "property-based testing (Hypothesis) against closed-form tables; chi-square for the sampling-mode marginal loader; differential check direct construction vs. dispatcher",
    "Every loader's .jdd is compared entry by entry (rel. 1e-9) with the law its inputs describe, through the class "
    "constructor and the type-dispatching entry point (enum and string). " + EXPL,
    "upper degree bound accepted as exclusive or inclusive; marginal/function results compared after normalisation")

reg("C07",
    "property-based testing (Hypothesis) against an independent enumeration of all degree splits",
    "Mass per overall degree, the within-degree split ratios, total 1, and the delta loader's pure first-topology "
    "degrees are compared (rel. 1e-9) with a reference enumeration for generated degree functions, probability "
    "vectors, ranges and targets; both construction paths. " + EXPL,
    "upper end of the range accepted as exclusive or inclusive")

reg("C08",
    "property-based testing (Hypothesis) on generated clique covers (incl. covers produced by EECC); reference per-vertex counting",
    "motif_sizes, the per-vertex count tuples, the relative-frequency table, the clique-size profile identity and "
    "sample+generate with clique motifs are checked for covers with gaps in the size set, 0- and 1-based ids. " + EXPL,
    "covers are contiguous in vertex ids and cover every vertex (documented input)")

reg("C19",
    "property-based testing (Hypothesis) against 40-digit mpmath closed forms (zeta, polylog) with a derived truncation tolerance",
    "Values, non-negativity and normalisation (partial sums plus analytic tails) of the four factories are compared "
    "with the exact formulas for generated parameters and degrees (Python and numpy ints). " + EXPL,
    "tolerance derived from the library's own series stopping rule (first term < 1e-6)")

reg("C13",
    "property-based testing (Hypothesis): reference extractor over Fractions written from the definition; repeated-call histories on one extractor",
    "Every matrix entry (1e-12), symmetry, total, excess keys and repeatability over 1..4 successive get_ejks() calls "
    "are compared with the definition on clean motif networks and freely annotated simple graphs; overall-degree "
    "variant likewise. " + EXPL,
    "simple graphs only")

reg("C14",
    "property-based testing (Hypothesis): Fraction reference formulas, inversion round trip, brute-force row sums, cross-module identity on clean networks",
    "Forward excess distributions, means, list/dict converters, inversion (P/(1-P(0))), row sums of generated "
    "matrices and the network cross-module identity are compared with exact references (1e-9) for arbitrary "
    "topology name lists. " + EXPL,
    "inversion required only under the statement's precondition; cross-module identity on clique/cycle motifs")

reg("C09",
    "property-based testing (Hypothesis) + exhaustive graph-atlas family with the complete tie-break decision tree enumerated (scripted RNG); validity-predicate oracle",
    "Exact-cover (each input edge in exactly one element), size bound, clique-ness, empty working graph and the "
    "intact-maximal-clique clause are asserted for generated graphs x m0 x tie-break schedules, and for every atlas "
    "graph in range under every tie-break outcome (trees <= 200 leaves). " + EXPL,
    "tie-breaks are assumed to come from the stdlib random instance's integer source")

reg("C10",
    "property-based testing (Hypothesis) over graphs and cover/mutate/cover histories + atlas enumeration; label-partition and greedy-maximal predicates",
    "Unchanged node/edge sets, label format, label = all member pairs, size limit, id uniqueness and greedy "
    "maximality against nx.enumerate_all_cliques are asserted after every MPCC call of a generated history on one "
    "graph object (relabelled ids, random insertion order, seeded/scripted shuffle). " + EXPL,
    "non-negative integer node ids")

reg("C18",
    "property-based testing (Hypothesis) over percolate/rewire histories with exact oracles at phi in {0,1}; seeded chi-square for the Binomial law on stars",
    "Untouched input (nodes, edges and their data), lattice/bounds for all phi, exact values at phi=0 and phi=1 after "
    "in-place rewirings of the same graph object, and the Binomial(M,phi) law on stars (p<1e-9). " + EXPL,
    "distributional clause is statistical")

reg("C15",
    "exhaustive enumeration of all connected atlas graphs x focal vertices with exact polynomial arguments (polynomial identity), plus Hypothesis-generated call histories on a shared evaluator with exact Fractions",
    "The automated equation is called with Poly arguments (phi and one variable per vertex) and the returned "
    "polynomial must be identical to the brute-force expectation over all 2^|E| edge subsets; histories on one "
    "evaluator (distinctly named motifs, changing phi/u/focal) must agree with the oracle at every step. " + EXPL,
    "motifs up to 6 vertices exhaustively (the equation code itself is exponential), larger cliques/cycles/trees in histories only")

reg("C16",
    "exhaustive tables compared exactly (polynomial identity / integers) with brute-force and recurrence references; Hypothesis-generated call histories and counter inputs",
    "clique_equation and chordless_cycle_equation are evaluated with polynomial variables and must equal the exact "
    "expectation on K_tau / C_n; Q and QQ must equal the reference connected-graph counts over whole (n,k) ranges; "
    "the counter must equal a union-find reference on generated substrates/subsets/k; clique call histories with "
    "repeated and permuted neighbour values must stay exact. " + EXPL,
    "reference recurrence cross-checked by brute force for n<=5 (quick) / 6 in the same run")

reg("C17",
    "property-based testing (Hypothesis) against an independent reference fixed-point solver; metamorphic monotonicity; differential check shared object vs. fresh object over query histories",
    "theoretical(phi) is compared (1e-6) with a reference solver built from the motif list (own membership tables, "
    "brute-force motif expectation, Jacobi sweeps from 0.5) wherever that converges within iterations/4 sweeps; "
    "bounds, S(0)=0, monotonicity in phi at every iteration count and equality with a fresh object after any query "
    "history are asserted on every generated network. " + EXPL,
    "fixed-point clause only away from slow-convergence points; networks up to 11 (quick) / 15 vertices")

reg("C11",
    "property-based testing (Hypothesis) over networks x targets x limits x RNG schedules with a journalling nx.Graph subclass observing every accepted swap; clause-wise invariants over the swap history",
    "Input untouched, vertex set / annotations / per-topology degrees, motif shape per motif id (isomorphism to the "
    "original motif), no self-loop or duplicate edge, and no exception for any admissible parameter dict are asserted "
    "after every accepted swap batch and on the returned graph. The motif-shape clause is reported as the OPEN known "
    "finding only when exchanging the ids of the two new corner groups repairs it. " + EXPL,
    "termination is not part of the property: runs cut by the RNG-draw budget are inconclusive; clause (C) is suspended for the rest of a history once the open finding has manifested in it")

reg("C12",
    "property-based testing (Hypothesis) with journalled edge creations against generated targets with removed pairings; seeded before/after distance comparison on configuration-style networks",
    "Every edge created during a run must have positive target weight for its end points' excess pair (both "
    "orientations) in its topology; on enumerated larger networks with assortative targets the L1 distance to the "
    "target must decrease (harness-side extractor). " + EXPL,
    "approach clause is decided on 6 (quick) / 24 seeded networks with a large expected margin; budget-cut runs are inconclusive")
