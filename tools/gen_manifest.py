#!/usr/bin/env python3-vt
"""Regenerates MANIFEST.json from the table below (kept in one place so it stays valid)."""
import json
import os

VERIF = os.path.dirname(os.path.dirname(os.path.abspath(__file__)))

# property -> (technique, level text, level note, design ref)
CHECKS = {}


def reg(pid, technique, text, note):
    CHECKS[pid] = (technique, text, note)


exec(open(os.path.join(VERIF, "tools", "manifest_table.py")).read())

props = [json.loads(l) for l in open(os.path.join(VERIF, "properties.jsonl"))]
checks = []
na = []
NA = globals().get("NOT_APPLICABLE", {})
for p in props:
    pid = p["id"]
    if pid in CHECKS and os.path.exists(os.path.join(VERIF, "checks", pid.lower() + ".py")):
        tech, text, note = CHECKS[pid]
        checks.append({
            "property_id": pid,
            "quick_cmd": f"./check {pid} --tier quick",
            "thorough_cmd": f"./check {pid} --tier thorough",
            "evidence_file": f"/verif/evidence/{pid}.json",
            "replay_cmd_template": f"./check {pid} --replay {{path}}",
            "engine": "pbt-runner",
            "level_claimed": {"category": "exploration", "text": text, "design_ref": f"DESIGN.md §4 {pid}"},
            "level_note": note,
            "technique": tech,
        })
    else:
        na.append({"property_id": pid, "reason": NA.get(pid, "check not built yet (work in progress); not claimed")})

manifest = {
    "version": 1,
    "setup_cmd": ("/venv/bin/python -c 'import hypothesis, networkx, numpy' || /venv/bin/pip install --no-index "
                  "--find-links /opt/veriftools/wheels hypothesis networkx numpy; "
                  "/venv/bin/pip install -q --no-index --find-links /opt/veriftools/wheels --target /verif/.deps mpmath"),
    "hooks": {
        "guard": "GCMPY_VERIF",
        "enable": "no source hooks are needed: checks import gcmpy straight from /repo's working tree "
                  "(PYTHONPATH=/repo) and observe it through user callbacks, nx.Graph subclasses and the stdlib "
                  "random module; GCMPY_VERIF is reserved and currently unused",
        "baseline_off_cmd": "cd /repo && /venv/bin/python -m pytest -ra -q -p no:cacheprovider --timeout=900 "
                            "--continue-on-collection-errors",
        "source_commits": [],
        "add_only": True,
    },
    "engines": [{
        "name": "pbt-runner",
        "path": "/verif/vlib/runner.py",
        "serves_properties": [c["property_id"] for c in checks],
        "kind_free_text": "Hypothesis-driven generated-input search (16 seeded shards per property) plus enumerated "
                          "finite families, explicit oracles per property, owned stdlib RNG (seeded / scripted / "
                          "exhaustively enumerated decision tree), exact Fraction polynomials, plain-JSON replay files",
    }],
    "checks": checks,
    "not_applicable": na,
    "notes": "All checks: ./check <id> --tier quick|thorough; VERIF_SEED selects the Hypothesis/RNG seeds; exit 0 held, "
             "1 VIOLATION, 2 harness error. Known findings: /verif/known_findings.json (never written at run time).",
}
with open(os.path.join(VERIF, "MANIFEST.json"), "w") as fh:
    json.dump(manifest, fh, indent=1)
    fh.write("\n")
import jsonschema  # noqa
try:
    jsonschema.validate(manifest, json.load(open("/root/.vp/MANIFEST.schema.json")))
    print("MANIFEST valid;", len(checks), "checks,", len(na), "not claimed")
except Exception as e:
    print("INVALID", e)
