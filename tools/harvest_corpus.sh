#!/bin/sh
# For every seeded change: run the property's check on a scratch copy with the change applied, and keep the shrunk
# failing case(s) it reports as regression cases in corpus/<pid>/seed-<name>-<k>.json -- provided they pass on the
# unchanged tree.  The quick tier replays the corpus first, so these changes are then caught whatever VERIF_SEED is.
cd "$(dirname "$0")/.."
V=$(pwd)
for d in ${SEEDS_DIRS:-seeded/*/}; do
  name=$(basename "$d"); pid=${name%%-*}
  ls corpus/$pid/seed-$name-*.json >/dev/null 2>&1 && { echo "$name has corpus"; continue; }
  D=$(mktemp -d /tmp/hvXXXXXX); R=$(mktemp -d /tmp/hvrXXXXXX)
  git -C /repo archive HEAD | tar -x -C "$D"
  if ! (cd "$D" && git apply --unsafe-paths -p1 "$V/$d/patch.diff" 2>/dev/null); then echo "$name NOAPPLY"; rm -rf "$D" "$R"; continue; fi
  for tier in quick thorough; do
    VERIF_REPO="$D" VERIF_REPLAY_DIR="$R" timeout 3000 ./check "$pid" --tier $tier --no-evidence >/dev/null 2>&1
    ls "$R/$pid"/*.json >/dev/null 2>&1 && break
  done
  k=0
  for f in "$R/$pid"/*.json; do
    [ -f "$f" ] || continue
    if ./check "$pid" --replay "$f" >/dev/null 2>&1; then
      mkdir -p corpus/$pid; cp "$f" corpus/$pid/seed-$name-$k.json; k=$((k+1))
    fi
    [ $k -ge 2 ] && break
  done
  echo "$name kept=$k tier=$tier"
  rm -rf "$D" "$R"
done
