#!/bin/sh
# runs every check's quick tier at several VERIF_SEED values; prints one line per run; any non-zero exit is flagged
cd "$(dirname "$0")/.."
for s in ${SEEDS:-1 2 3 4 5 6 7 8}; do
  for p in C01 C02 C03 C04 C05 C06 C07 C08 C09 C10 C11 C12 C13 C14 C15 C16 C17 C18 C19 C20; do
    out=$(VERIF_SEED=$s ./check $p --tier ${TIER:-quick} --no-evidence 2>&1); rc=$?
    echo "seed=$s $p rc=$rc $(echo "$out" | grep -E 'evaluations' | cut -c1-120)"
    if [ $rc -ne 0 ]; then echo "$out" | grep -E "VIOLATION|HARNESS|^  \[" | cut -c1-400; fi
  done
done
