#!/bin/sh
# for every behaviour-preserving change in benign/: apply it to a scratch copy of /repo HEAD and run the checks listed
# in its meta.json (quick tier) at the given seeds; a check must stay quiet ("quiet"), except for changes whose
# verdict is "breaks-property" (a sub-agent's 'benign' change that was not: there an alarm is expected).
# env: ONLY=<glob> SEEDS="0 1" OWN=1 (only the change's own property)
cd "$(dirname "$0")/.."
V=$(pwd)
for d in benign/${ONLY:-*}/; do
  name=$(basename "$d"); own=${name%%-*}
  verdict=$(python3 -c "import json,sys; print(json.load(open('$d/meta.json'))['verdict'])")
  checks=$(python3 -c "import json,sys; print(' '.join(json.load(open('$d/meta.json'))['checks']))")
  [ -n "$OWN" ] && checks=$own
  D=$(mktemp -d /tmp/bmXXXXXX)
  git -C /repo archive HEAD | tar -x -C "$D"
  if ! (cd "$D" && git apply --unsafe-paths -p1 "$V/$d/patch.diff" 2>/dev/null); then echo "$name NOAPPLY"; rm -rf "$D"; continue; fi
  for c in $checks; do
    for s in ${SEEDS:-0}; do
      out=$(VERIF_REPLAY_DIR="$D/replays" VERIF_REPO="$D" VERIF_SEED=$s ./check "$c" --tier quick --no-evidence 2>&1); rc=$?
      if [ $rc -eq 0 ]; then r=quiet; elif [ $rc -eq 1 ]; then r="ALARM $(echo "$out" | grep -E '^  \[' | head -1 | cut -c1-160)"; else r="HARNESS-ERROR rc=$rc"; fi
      echo "$name ($verdict) $c seed=$s $r"
    done
  done
  rm -rf "$D"
done
