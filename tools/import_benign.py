#!/usr/bin/env python3
"""Copies behaviour-preserving ("benign") changes written by sub-agents from $BENIGN_SRC (default /tmp/benign_out) into
benign/<Cnn>-<x>/ (patch.diff + meta.json).  meta.json gains: checks (which checks are run against the change by
tools/benign_matrix.sh) and verdict ("benign", or "breaks-property" with a reason when the change turned out to
violate the property after all)."""
import json, os, shutil, sys
SRC = os.environ.get("BENIGN_SRC", "/tmp/benign_out")
RENAME = dict(kv.split("=") for kv in os.environ.get("BENIGN_RENAME", "").split(",") if kv)  # e.g. A=D,B=E for round 2
ROOT = os.path.dirname(os.path.dirname(os.path.abspath(__file__)))
RELATED = {"C01": ["C01", "C02", "C03", "C04"], "C02": ["C02", "C01", "C04"], "C03": ["C03", "C01"], "C04": ["C04"],
           "C05": ["C05", "C08"], "C06": ["C06"], "C07": ["C07"], "C08": ["C08", "C05"], "C09": ["C09", "C08"], "C10": ["C10"],
           "C11": ["C11", "C12"], "C12": ["C12", "C11"], "C13": ["C13", "C14"], "C14": ["C14", "C13"], "C15": ["C15", "C17"],
           "C16": ["C16", "C15", "C17"], "C17": ["C17"], "C18": ["C18"], "C19": ["C19", "C07"], "C20": ["C20", "C11", "C12"]}
NOT_BENIGN = {
    "C08-D": "handshaking_lemma computes the deficit as -ntop % size: wraps around for unsigned NumPy joint degree keys; the patch's own new assert then fails inside sample_jds_from_jdd (found by C05)",
    "C05-B": "handshaking_lemma computes the deficit as -total % size: for joint degree keys that are unsigned NumPy integers the negation wraps around and no stub is added (column sums stay non-divisible); the pristine code handles such keys",
    "C08-B": "handshaking_lemma computes the deficit as (-total) % size: wraps around for unsigned NumPy joint degree keys, so the sampled sequence violates the handshake condition (found by C05)",
}
for pid in sorted(os.listdir(SRC)):
    for x in "ABC":
        d = os.path.join(SRC, pid, x)
        if not os.path.isfile(os.path.join(d, "patch.diff")):
            continue
        name = f"{pid}-{RENAME.get(x, x)}"
        out = os.path.join(ROOT, "benign", name)
        os.makedirs(out, exist_ok=True)
        shutil.copy(os.path.join(d, "patch.diff"), os.path.join(out, "patch.diff"))
        try:
            meta = json.load(open(os.path.join(d, "meta.json")))
        except Exception:
            meta = {"property": pid}
        meta["checks"] = RELATED[pid]
        meta["verdict"] = "breaks-property" if name in NOT_BENIGN else "benign"
        if name in NOT_BENIGN:
            meta["verdict_reason"] = NOT_BENIGN[name]
        if os.path.isfile(os.path.join(d, "patch_orig.diff")):
            meta["note"] = "patch rebased by hand onto the tree that contains the later exponential() fix"
        json.dump(meta, open(os.path.join(out, "meta.json"), "w"), indent=1)
        print("imported", name, meta["verdict"])
