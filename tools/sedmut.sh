#!/bin/sh
# usage: tools/sedmut.sh <Cnn> <file relative to repo> <python-replace: OLD|||NEW>  -- one-off mutation test on a scratch copy
D=$(mktemp -d /tmp/mutXXXXXX)
git -C /repo archive HEAD | tar -x -C "$D"
python3 - "$D/$2" "$3" <<'PY'
import sys
p, spec = sys.argv[1], sys.argv[2]
old, new = spec.split("|||")
s = open(p).read()
assert old in s, "pattern not found: " + old
open(p, "w").write(s.replace(old, new, 1))
PY
VERIF_REPO="$D" /verif/check "$1" --tier quick --no-evidence | grep -E "VIOLATION|HARNESS|evaluations|^  \[" | cut -c1-260 | head -6
rm -rf "$D" /verif/replays
