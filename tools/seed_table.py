#!/usr/bin/env python3
"""prints the markdown table of seeded changes from seeded/*/meta.json (used for DESIGN.md section 10)."""
import json, glob, os
V = os.path.dirname(os.path.dirname(os.path.abspath(__file__)))
print("| seeded change | what it does / what it needs to manifest | caught by (violation kinds) |")
print("|---|---|---|")
for d in sorted(glob.glob(os.path.join(V, "seeded", "*"))):
    m = json.load(open(os.path.join(d, "meta.json")))
    kinds = ", ".join(f"`{k}`" for k in m.get("violation_kinds_reported", [])[:3]) or "—"
    det = f"{m['property']} quick: {kinds}" if m.get("detected_by_quick_check") else "**missed**"
    print(f"| {os.path.basename(d)} | {m.get('summary','').strip()} — needs: {m.get('what_it_needs_to_manifest','').strip()[:260]} | {det} |")
