"""Pure-Python statistical tail bounds (DESIGN §3.4): chi-square survival, binomial tails."""
import math

ALPHA = 1e-9  # a statistical test fails only below this p-value


def _gammainc_lower_series(a, x):
    # regularised lower incomplete gamma P(a,x), series
    s = 1.0 / a
    term = s
    n = a
    for _ in range(100000):
        n += 1
        term *= x / n
        s += term
        if abs(term) < abs(s) * 1e-16:
            break
    return s * math.exp(-x + a * math.log(x) - math.lgamma(a))


def _gammainc_upper_cf(a, x):
    # regularised upper incomplete gamma Q(a,x), continued fraction (Lentz)
    tiny = 1e-300
    b = x + 1.0 - a
    c = 1.0 / tiny
    d = 1.0 / b
    h = d
    for i in range(1, 100000):
        an = -i * (i - a)
        b += 2.0
        d = an * d + b
        if abs(d) < tiny:
            d = tiny
        c = b + an / c
        if abs(c) < tiny:
            c = tiny
        d = 1.0 / d
        delta = d * c
        h *= delta
        if abs(delta - 1.0) < 1e-16:
            break
    return math.exp(-x + a * math.log(x) - math.lgamma(a)) * h


def chi2_sf(x, df):
    """P(Chi2_df >= x)."""
    if x <= 0:
        return 1.0
    a = df / 2.0
    xx = x / 2.0
    if xx < a + 1.0:
        return max(0.0, 1.0 - _gammainc_lower_series(a, xx))
    return _gammainc_upper_cf(a, xx)


def chi2_test(observed, expected, min_expected=5.0):
    """Pearson chi-square of observed counts against expected counts (same total).
    Cells are pooled (in order of increasing expectation) until every pooled cell has
    expectation >= min_expected.  Returns (statistic, df, p)."""
    cells = sorted(zip(expected, observed))
    pooled = []
    ce = co = 0.0
    for e, o in cells:
        ce += e
        co += o
        if ce >= min_expected:
            pooled.append((ce, co))
            ce = co = 0.0
    if ce > 0 or co > 0:
        if pooled:
            le, lo = pooled[-1]
            pooled[-1] = (le + ce, lo + co)
        else:
            pooled.append((ce, co))
    if len(pooled) < 2:
        return 0.0, 0, 1.0
    stat = sum((o - e) ** 2 / e for e, o in pooled)
    df = len(pooled) - 1
    return stat, df, chi2_sf(stat, df)


def binom_logpmf(k, n, p):
    if p <= 0:
        return 0.0 if k == 0 else -math.inf
    if p >= 1:
        return 0.0 if k == n else -math.inf
    return (math.lgamma(n + 1) - math.lgamma(k + 1) - math.lgamma(n - k + 1)
            + k * math.log(p) + (n - k) * math.log1p(-p))


def binom_pmf(k, n, p):
    return math.exp(binom_logpmf(k, n, p))


def binom_two_sided_p(k, n, p):
    """Exact two-sided p-value: total mass of outcomes no more likely than k."""
    lk = binom_logpmf(k, n, p)
    tot = 0.0
    for j in range(n + 1):
        lj = binom_logpmf(j, n, p)
        if lj <= lk + 1e-12:
            tot += math.exp(lj)
    return min(1.0, tot)
