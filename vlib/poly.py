"""Exact sparse multivariate polynomials over Fraction (DESIGN §3.3).

gcmpy's equation code is duck typed, so it can be called with Poly arguments; floats that the
code mixes in (0.0 + x, 1.0 * x, pow(x, 3.0)) are lifted exactly.
"""
from fractions import Fraction
from numbers import Number


def _lift(x):
    if isinstance(x, Poly):
        return x
    if isinstance(x, bool):
        return Poly({(): Fraction(int(x))})
    if isinstance(x, (int, Fraction)):
        return Poly({(): Fraction(x)})
    if isinstance(x, float):
        return Poly({(): Fraction(x)})
    try:  # numpy scalars
        return Poly({(): Fraction(float(x))})
    except Exception:
        return NotImplemented


_MUL_CACHE = {}
_POW_CACHE = {}


class Poly:
    __slots__ = ("t", "_k")
    __array_priority__ = 1000

    def __init__(self, terms=None):
        # terms: dict monomial -> Fraction, monomial = tuple of sorted (var, exp) pairs
        self.t = {m: c for m, c in (terms or {}).items() if c != 0}

    @staticmethod
    def var(name):
        return Poly({((name, 1),): Fraction(1)})

    @staticmethod
    def const(c):
        return Poly({(): Fraction(c)})

    def __add__(self, o):
        o = _lift(o)
        if o is NotImplemented:
            return o
        r = dict(self.t)
        for m, c in o.t.items():
            r[m] = r.get(m, 0) + c
        return Poly(r)

    __radd__ = __add__

    def __neg__(self):
        return Poly({m: -c for m, c in self.t.items()})

    def __sub__(self, o):
        o = _lift(o)
        if o is NotImplemented:
            return o
        return self + (-o)

    def __rsub__(self, o):
        o = _lift(o)
        if o is NotImplemented:
            return o
        return o + (-self)

    def __mul__(self, o):
        o = _lift(o)
        if o is NotImplemented:
            return o
        # products of small polynomials recur massively in gcmpy's equation loops: memoise them
        if len(self.t) <= 64 and len(o.t) <= 64:
            key = (self._key(), o._key())
            hit = _MUL_CACHE.get(key)
            if hit is not None:
                return hit
            res = self._mul(o)
            if len(_MUL_CACHE) > 200000:
                _MUL_CACHE.clear()
            _MUL_CACHE[key] = res
            return res
        return self._mul(o)

    def _key(self):
        try:
            return self._k
        except AttributeError:
            self._k = frozenset(self.t.items())
            return self._k

    def _mul(self, o):
        r = {}
        for m1, c1 in self.t.items():
            for m2, c2 in o.t.items():
                if not m1:
                    m = m2
                elif not m2:
                    m = m1
                else:
                    d = dict(m1)
                    for v, e in m2:
                        d[v] = d.get(v, 0) + e
                    m = tuple(sorted(d.items()))
                r[m] = r.get(m, 0) + c1 * c2
        return Poly(r)

    __rmul__ = __mul__

    def __truediv__(self, o):
        if isinstance(o, Poly):
            if len(o.t) == 1 and () in o.t:
                o = o.t[()]
            else:
                return NotImplemented
        if isinstance(o, float):
            o = Fraction(o)
        return Poly({m: c / Fraction(o) for m, c in self.t.items()})

    def __pow__(self, n):
        if isinstance(n, float):
            if n != int(n):
                raise TypeError("Poly ** non-integral float")
            n = int(n)
        if not isinstance(n, int) or n < 0:
            raise TypeError("Poly ** %r" % (n,))
        ck = (self._key(), n)
        hit = _POW_CACHE.get(ck)
        if hit is not None:
            return hit
        if len(_POW_CACHE) > 100000:
            _POW_CACHE.clear()
        r = Poly.const(1)
        b = self
        n0 = n
        while n:
            if n & 1:
                r = r * b
            b = b * b
            n >>= 1
        _POW_CACHE[ck] = r
        return r

    def __eq__(self, o):
        o = _lift(o)
        if o is NotImplemented:
            return False
        return self.t == o.t

    def __ne__(self, o):
        return not self.__eq__(o)

    def __hash__(self):
        return hash(frozenset(self.t.items()))

    def is_const(self):
        return all(m == () for m in self.t)

    def const_value(self):
        assert self.is_const()
        return self.t.get((), Fraction(0))

    def subs(self, env):
        """Substitute Fractions for variables (all variables must be given)."""
        tot = Fraction(0)
        for m, c in self.t.items():
            v = c
            for var, e in m:
                v *= Fraction(env[var]) ** e
            tot += v
        return tot

    def __repr__(self):
        if not self.t:
            return "0"
        parts = []
        for m, c in sorted(self.t.items()):
            mon = "*".join(f"{v}^{e}" if e != 1 else v for v, e in m)
            parts.append(f"{c}" + ("*" + mon if mon else ""))
        return " + ".join(parts)


def compose(poly, mapping):
    """substitute polynomials (or numbers) for variables; variables not in mapping stay."""
    out = Poly()
    for m, c in poly.t.items():
        term = Poly.const(c)
        for var, e in m:
            base = mapping.get(var, None)
            base = Poly.var(var) if base is None else _lift(base)
            term = term * (base ** e)
        out = out + term
    return out
