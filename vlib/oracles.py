"""Reference models (independent of gcmpy): bond-percolation expectation on a motif, connected labelled graph
counts, connected-subgraph counter, message-passing fixed point."""
from fractions import Fraction
from functools import lru_cache
from math import comb

from vlib.poly import Poly


def percolation_groups(nodes, edges, root):
    """groups[(k, frozenset(component of root minus root))] = number of edge subsets S with |S| = k whose
    root component is that set.  Brute force over all 2^|E| subsets (bitmask flood fill)."""
    idx = {v: i for i, v in enumerate(nodes)}
    E = [(idx[a], idx[b]) for a, b in edges]
    m = len(E)
    r = idx[root]
    groups = {}
    n = len(nodes)
    for S in range(1 << m):
        adj = [0] * n
        k = 0
        for i in range(m):
            if S >> i & 1:
                a, b = E[i]
                adj[a] |= 1 << b
                adj[b] |= 1 << a
                k += 1
        comp = 1 << r
        frontier = comp
        while frontier:
            nxt = 0
            f = frontier
            while f:
                low = f & -f
                nxt |= adj[low.bit_length() - 1]
                f ^= low
            frontier = nxt & ~comp
            comp |= frontier
        key = (k, comp & ~(1 << r))
        groups[key] = groups.get(key, 0) + 1
    return {(k, frozenset(nodes[i] for i in range(n) if mask >> i & 1)): c for (k, mask), c in groups.items()}, m


def percolation_poly(nodes, edges, root, pvar="p", uname=lambda v: f"u{v}"):
    groups, m = percolation_groups(list(nodes), list(edges), root)
    p = Poly.var(pvar)
    q = 1 - p
    pk = [p ** k * q ** (m - k) for k in range(m + 1)]
    tot = Poly()
    for (k, comp), c in groups.items():
        term = pk[k] * c
        for v in sorted(comp, key=repr):
            term = term * Poly.var(uname(v))
        tot = tot + term
    return tot


def percolation_value(groups, m, p, u):
    """numeric evaluation of the expectation from precomputed groups; u: dict vertex -> value."""
    tot = 0.0
    q = 1.0 - p
    for (k, comp), c in groups.items():
        t = c * p ** k * q ** (m - k)
        for v in comp:
            t *= u[v]
        tot += t
    return tot


@lru_cache(maxsize=None)
def connected_count(n, k):
    """number of connected labelled graphs with n vertices and k edges (rooted-component recurrence)."""
    N = n * (n - 1) // 2
    if k < 0 or k > N:
        return 0
    if n == 1:
        return 1 if k == 0 else 0
    tot = comb(N, k)
    for m in range(1, n):
        rest = comb(n - m, 2)
        inner = 0
        for j in range(0, k + 1):
            cj = connected_count(m, j)
            if cj:
                inner += cj * comb(rest, k - j)
        tot -= comb(n - 1, m - 1) * inner
    return tot


def connected_count_bruteforce(n, k):
    from itertools import combinations
    pairs = [(i, j) for i in range(n) for j in range(i + 1, n)]
    cnt = 0
    for S in combinations(pairs, k):
        if is_connected(n, S):
            cnt += 1
    return cnt


def is_connected(n, edges):
    parent = list(range(n))

    def find(x):
        while parent[x] != x:
            parent[x] = parent[parent[x]]
            x = parent[x]
        return x
    comps = n
    for a, b in edges:
        ra, rb = find(a), find(b)
        if ra != rb:
            parent[ra] = rb
            comps -= 1
    return comps == 1


def connected_poly(n, pvar="p"):
    """probability that G(n, p) is connected, as a Poly: sum_k C(n,k) p^k (1-p)^(N-k)."""
    p = Poly.var(pvar)
    q = 1 - p
    N = n * (n - 1) // 2
    tot = Poly()
    for k in range(n - 1, N + 1):
        c = connected_count(n, k)
        if c:
            tot = tot + (p ** k) * (q ** (N - k)) * c
    return tot


def clique_poly(tau, unames, pvar="p"):
    """exact expectation on K_tau (root + tau-1 neighbours named unames) in vertex-subset form."""
    from itertools import combinations
    p = Poly.var(pvar)
    q = 1 - p
    tot = Poly()
    others = list(unames)
    for s in range(0, tau):  # s = number of neighbours in the root's component
        base = connected_poly(s + 1, pvar) * q ** ((s + 1) * (tau - s - 1))
        sym = Poly()
        for comb_ in combinations(others, s):
            t = Poly.const(1)
            for nme in comb_:
                t = t * Poly.var(nme)
            sym = sym + t
        tot = tot + base * sym
    return tot


def count_connected_after_removal(nodes, edges, k):
    """number of k-subsets of `edges` whose removal leaves the graph on `nodes` connected."""
    from itertools import combinations
    nodes = list(nodes)
    idx = {v: i for i, v in enumerate(nodes)}
    E = [(idx[a], idx[b]) for a, b in edges]
    cnt = 0
    for rem in combinations(range(len(E)), k):
        rs = set(rem)
        if is_connected(len(nodes), [e for i, e in enumerate(E) if i not in rs]):
            cnt += 1
    return cnt
