"""Ownership of the stdlib `random` module's hidden instance (DESIGN §3.2).

Three modes, all context managers that restore the previous state:
  seeded(s)            -- random.seed(s); numpy seeded too
  scripted(ints, ...)  -- i-th integer draw `_randbelow(n)` answered by ints[i] % n, then by a
                          private seeded tail generator; float draws from a seeded tail too
  enumerate_outcomes   -- exact output distribution of a function whose randomness is integer
                          draws only (shuffle / choice / randrange)
plus `spy_choices()`, a passive recorder of random.choices calls.
"""
import math
import random
from contextlib import contextmanager
from fractions import Fraction

_inst = random._inst


class Budget(Exception):
    """RNG draw budget exhausted: the case is inconclusive, never a violation."""


class Uncontrolled(Exception):
    """Float RNG source used while enumerating integer draws."""


def _install(rb=None, rnd=None, raw=None):
    saved = (_inst.__dict__.get("_randbelow", None), _inst.__dict__.get("random", None), random.random,
             random.getrandbits, random.randbytes)
    if rb is not None:
        _inst._randbelow = rb
    if rnd is not None:
        _inst.random = rnd
        random.random = rnd
        if raw is None:
            def raw(bits):
                return rnd()

        # raw bit sources are derived from the (scripted) float source, so that code drawing through
        # random.getrandbits / random.randbytes is owned as well: k bits = floor(u * 2**k)
        def grb(k):
            return int(raw(k) * (1 << k)) if k > 0 else 0

        def rbytes(n):
            return bytes(int(raw(8) * 256) for _ in range(n))
        random.getrandbits = grb
        random.randbytes = rbytes
    return saved


def _restore(saved):
    rb, rnd, modrnd, modgrb, modrbytes = saved
    random.getrandbits = modgrb
    random.randbytes = modrbytes
    if rb is None:
        _inst.__dict__.pop("_randbelow", None)
    else:
        _inst._randbelow = rb
    if rnd is None:
        _inst.__dict__.pop("random", None)
    else:
        _inst.random = rnd
    random.random = modrnd


@contextmanager
def seeded(s):
    st = random.getstate()
    try:
        import numpy as np
        npst = np.random.get_state()
    except Exception:  # pragma: no cover
        np = None
    random.seed(s)
    if np is not None:
        np.random.seed(s % (2 ** 32))
    try:
        yield
    finally:
        random.setstate(st)
        if np is not None:
            np.random.set_state(npst)


class Script:
    def __init__(self):
        self.int_draws = 0
        self.float_draws = 0
        self.bounds = []
        # entropy drawn so far, in bits, treating the source as ideal: log2(n) per integer draw below n, 53 per
        # float, k per getrandbits(k).  A run that drew b bits ends in a leaf of probability 2**-b, so its outcome
        # has probability at least 2**-b.
        self.entropy_bits = 0.0


@contextmanager
def scripted(ints=(), tail_seed=0, budget=None, floats=(), record_bounds=False):
    """Integer draws: ints[i] % n for the first len(ints) requests, then a private
    random.Random(tail_seed).  Float draws: floats[i] then the same private generator.
    budget: maximal total number of draws (ints + floats) before Budget is raised."""
    tail = random.Random(tail_seed)
    info = Script()
    ints = list(ints)
    floats = list(floats)

    def rb(n):
        i = info.int_draws
        info.int_draws += 1
        if budget is not None and info.int_draws + info.float_draws > budget:
            raise Budget()
        if record_bounds:
            info.bounds.append(n)
        info.entropy_bits += math.log2(n) if n > 1 else 0.0
        if i < len(ints):
            return ints[i] % n
        return tail._randbelow(n)

    def rnd(bits=53):
        i = info.float_draws
        info.float_draws += 1
        if budget is not None and info.int_draws + info.float_draws > budget:
            raise Budget()
        info.entropy_bits += bits
        if i < len(floats):
            return floats[i]
        return tail.random()

    saved = _install(rb, lambda: rnd(), raw=rnd)
    try:
        yield info
    finally:
        _restore(saved)


def enumerate_outcomes(fn, max_leaves=100000):
    """Exact distribution of fn() over all resolutions of its integer draws.
    fn must be deterministic given the draws and return a hashable outcome.
    Returns (dict outcome -> Fraction, number_of_leaves).  Raises Uncontrolled if fn
    uses the float source, OverflowError if more than max_leaves leaves."""
    results = {}
    leaves = 0
    stack = [[]]

    def rnd():
        raise Uncontrolled()

    while stack:
        prefix = stack.pop()
        bounds = []

        def rb(n, prefix=prefix, bounds=bounds):
            i = len(bounds)
            bounds.append(n)
            return prefix[i] if i < len(prefix) else 0

        saved = _install(rb, rnd)
        try:
            out = fn()
        finally:
            _restore(saved)
        for i, v in enumerate(prefix):
            if i >= len(bounds) or v >= bounds[i]:
                raise RuntimeError("decision tree is not stable under replay")
        prob = Fraction(1)
        for n in bounds:
            prob /= n
        results[out] = results.get(out, Fraction(0)) + prob
        leaves += 1
        if leaves > max_leaves:
            raise OverflowError("too many leaves")
        path = prefix + [0] * (len(bounds) - len(prefix))
        for j in range(len(prefix), len(bounds)):
            for v in range(1, bounds[j]):
                stack.append(path[:j] + [v])
    return results, leaves


@contextmanager
def spy_choices():
    """Record (population, weights, k, result) of every random.choices call, passively."""
    calls = []
    orig = random.choices

    def spy(population, weights=None, *, cum_weights=None, k=1):
        res = orig(population, weights, cum_weights=cum_weights, k=k)
        calls.append({"population": list(population),
                      "weights": None if weights is None else list(weights),
                      "k": k, "result": list(res)})
        return res

    random.choices = spy
    try:
        yield calls
    finally:
        random.choices = orig
