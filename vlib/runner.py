"""Runner: CLI, environment, sharding, evidence, replays, known findings (DESIGN §2).

Exit codes: 0 held on everything explored; 1 violation (VIOLATION line printed);
2 harness error (never reported as a violation).
"""
import hashlib
import importlib
import json
import os
import re
import subprocess
import sys
import time
import traceback

VERIF = os.path.dirname(os.path.dirname(os.path.abspath(__file__)))
REPO = os.environ.get("VERIF_REPO", "/repo")
NPROC = int(os.environ.get("VERIF_NPROC", "16"))


class Violation(Exception):
    """The property is violated.  kind = stable slug naming the violated clause."""

    def __init__(self, kind, msg=""):
        super().__init__(f"[{kind}] {msg}")
        self.kind = kind
        self.msg = msg


def code_frame(exc):
    """innermost frame of the traceback lying in gcmpy, as 'file:function'."""
    tb = exc.__traceback__
    where = None
    while tb is not None:
        fn = tb.tb_frame.f_code.co_filename
        if "/gcmpy/" in fn:
            where = fn.split("/gcmpy/", 1)[1] + ":" + tb.tb_frame.f_code.co_name
        tb = tb.tb_next
    return where


def call(what, fn, *a, **k):
    """Run code under test on an input inside the property's domain: any exception it raises
    is a violation of the named clause (bucketed by exception type and innermost gcmpy frame).
    RNG budget exhaustion propagates (inconclusive), and so does the enumeration-mode signal Uncontrolled."""
    from vlib.rng import Budget, Uncontrolled
    try:
        return fn(*a, **k)
    except (Budget, Violation, Uncontrolled):  # Uncontrolled: the harness's own "enumeration not applicable" signal
        raise
    except RecursionError as e:
        raise Violation(f"{what}:RecursionError", "recursion limit") from e
    except Exception as e:  # noqa
        raise Violation(f"{what}:{type(e).__name__}@{code_frame(e)}", f"{type(e).__name__}: {e}") from e
    except BaseException as e:  # `raise "string"` in the library gives TypeError, caught above
        if isinstance(e, (KeyboardInterrupt, SystemExit)):
            raise
        raise Violation(f"{what}:{type(e).__name__}@{code_frame(e)}", f"{type(e).__name__}: {e}") from e


def canon(case):
    return json.dumps(case, sort_keys=True, separators=(",", ":"))


def chash(case):
    return hashlib.sha1(canon(case).encode()).hexdigest()[:16]


def derive(seed, pid, shard):
    return int(hashlib.sha256(f"{seed}:{pid}:{shard}".encode()).hexdigest()[:12], 16)


class Acc:
    def __init__(self):
        self.evals = 0
        self.nontrivial = set()
        self.classes = {}
        self.inconclusive = 0
        self.known = {}
        self.samples = []
        self.last_nt = None
        self.buckets = {}
        self.notes = {}

    def record(self, case, info):
        self.evals += 1
        info = info or {}
        for c in info.get("classes", ()):
            self.classes[c] = self.classes.get(c, 0) + 1
        if info.get("inconclusive"):
            self.inconclusive += 1
        for k in info.get("known", ()):
            self.known[k] = self.known.get(k, 0) + 1
        for k, v in (info.get("notes") or {}).items():
            # numeric notes: keep min / max / count
            cur = self.notes.get(k)
            if cur is None:
                self.notes[k] = [v, v, 1]
            else:
                cur[0] = min(cur[0], v)
                cur[1] = max(cur[1], v)
                cur[2] += 1
        if info.get("nontrivial"):
            h = chash(case)
            if h not in self.nontrivial:
                self.nontrivial.add(h)
                if len(self.samples) < 2:
                    self.samples.append(case)
                self.last_nt = case

    def out(self):
        s = list(self.samples)
        if self.last_nt is not None and self.last_nt not in s:
            s.append(self.last_nt)
        return {"evals": self.evals, "nontrivial": sorted(self.nontrivial), "classes": self.classes,
                "inconclusive": self.inconclusive, "known": self.known, "samples": s,
                "buckets": self.buckets, "notes": self.notes}


def _task(args):
    if os.environ.get("VERIF_DEBUG_DUMP"):
        # debugging aid: `kill -USR1 <worker pid>` prints the worker's Python stack to stderr
        import faulthandler
        import signal
        faulthandler.register(signal.SIGUSR1, all_threads=True)

        def _dbg(signum, frame):
            m = sys.modules.get("checks.mcmc_common")
            sys.stderr.write(f"DBG pid={os.getpid()} itimer={signal.getitimer(signal.ITIMER_REAL)} "
                             f"alarm={getattr(m, '_ALARM', None)} handler={signal.getsignal(signal.SIGALRM)}\n")
            sys.stderr.flush()
        signal.signal(signal.SIGUSR2, _dbg)
    kind = args[0]
    try:
        purge_gcmpy()  # a pool worker runs several tasks: each starts from a freshly imported library
        if kind == "hyp":
            return _run_hyp(*args[1:])
        return _run_enum(*args[1:])
    except BaseException:  # harness error
        return {"error": traceback.format_exc()}


class process_config:
    """Process-level configuration a case asks for under its "_env" key.  The library's results must not depend on
    it: {"debug_logging": true} = the host application has verbose logging switched on (root logger at DEBUG, records
    discarded by a NullHandler); {"decimal_prec": 5} = the calling thread's decimal context has a reduced precision;
    {"logging_disabled": true} = logging.disable(CRITICAL) is in force; {"warnings_error": true} = warnings are turned
    into errors (python -W error, pytest filterwarnings = error)."""
    def __init__(self, env):
        self.env = env or {}

    def __enter__(self):
        if self.env.get("debug_logging"):
            import logging
            self.root = logging.getLogger()
            self.level = self.root.level
            self.handler = logging.NullHandler()
            self.root.addHandler(self.handler)
            self.root.setLevel(logging.DEBUG)
            self.disabled = logging.root.manager.disable
            logging.disable(logging.NOTSET)
        if self.env.get("logging_disabled"):
            import logging
            self.disabled2 = logging.root.manager.disable
            logging.disable(logging.CRITICAL)
        if self.env.get("warnings_error"):
            import warnings
            import gcmpy  # noqa: F401  (import-time warnings, e.g. SyntaxWarning for a docstring escape, are not the point)
            self.cw = warnings.catch_warnings()
            self.cw.__enter__()
            # (deprecation notices are left alone: adding one is an ordinary, behaviour-preserving change)
            warnings.simplefilter("error")
            for cat in (DeprecationWarning, PendingDeprecationWarning, FutureWarning, ImportWarning, ResourceWarning):
                warnings.simplefilter("ignore", cat)
        if self.env.get("decimal_prec"):
            import decimal
            self.prec = decimal.getcontext().prec
            decimal.getcontext().prec = int(self.env["decimal_prec"])

    def __exit__(self, *a):
        if self.env.get("debug_logging"):
            import logging
            self.root.setLevel(self.level)
            self.root.removeHandler(self.handler)
            logging.disable(self.disabled)
        if self.env.get("logging_disabled"):
            import logging
            logging.disable(self.disabled2)
        if self.env.get("warnings_error"):
            self.cw.__exit__(*a)
        if self.env.get("decimal_prec"):
            import decimal
            decimal.getcontext().prec = self.prec


def run_check(mod, case):
    """mod.check(case) under the process configuration the case carries (none for most cases)."""
    env = case.get("_env") if isinstance(case, dict) else None
    if not env:
        return mod.check(case)
    with process_config(env):
        info = mod.check(case)
    if isinstance(info, dict):
        info["classes"] = sorted(set(info.get("classes") or []) | {"env_" + k for k, v in env.items() if v})
    return info


def clone_point(obj, case):
    """A point in a case's history where the caller might just as well go on with a copy of a library object: under the
    case key "_clone" the object is replaced by copy.copy(obj).  Only the *shallow* copy is used: it goes through the
    object's own copy / pickle protocol (__copy__, __reduce_ex__, __getstate__ / __setstate__) but keeps every
    attribute value as the same object, so that implementations relying on identity-compared private sentinels are not
    penalised (a deep copy or a pickle round trip would clone such a sentinel; the properties say nothing about that).
    An object that can not be copied is used as it is."""
    mode = case.get("_clone") if isinstance(case, dict) else None
    if not mode:
        return obj
    import copy
    try:
        return copy.copy(obj)
    except Violation:
        raise
    except Exception:
        return obj


NO_WARNINGS_ERROR = [False]  # set from the check module's ENV_EXCLUDE


def with_env(case, k):
    """one generated case in ten (k == 0) runs with verbose logging enabled in the process, one in ten (k == 1)
    with a low-precision decimal context, one in ten (k == 2) with logging disabled process-wide, one in ten (k == 3) with warnings turned into errors"""
    if isinstance(case, dict) and "_env" not in case:
        if k == 0:
            return {**case, "_env": {"debug_logging": True}}
        if k == 1:
            return {**case, "_env": {"decimal_prec": 5}}
        if k == 2:
            return {**case, "_env": {"logging_disabled": True}}
        if k == 3 and not NO_WARNINGS_ERROR[0]:
            return {**case, "_env": {"warnings_error": True}}
        if k in (4, 5) and "_clone" not in case:
            return {**case, "_clone": "copy"}
    return case


def purge_gcmpy():
    """forget every gcmpy module so that the next import re-executes them: module / class level state the
    library may keep (caches, counters) starts from scratch, as in a fresh process."""
    for m in [m for m in sys.modules if m == "gcmpy" or m.startswith("gcmpy.")]:
        del sys.modules[m]


def run_isolated(mod, case, prefix=()):
    """execute `case` (after the cases in `prefix`) against a freshly imported library."""
    purge_gcmpy()
    for c in prefix:
        try:
            run_check(mod, json.loads(c))
        except Violation:
            pass
    try:
        run_check(mod, json.loads(canon(case)))
    except Violation as v:
        return (v.kind, str(v))
    return None


def _finalize(mod, case, msg, trace):
    """Turn a failing case into a reproducible failure record.  First try the case alone against a freshly
    imported library; if it only fails after earlier cases (the library leaks state between calls), keep a
    greedily minimised prefix of earlier cases in the replay.  Returns (failure | None, error | None)."""
    conf = run_isolated(mod, case)
    if conf is not None:
        return {"case": case, "kind": conf[0], "msg": conf[1]}, None
    prefix = list(trace)
    conf = run_isolated(mod, case, prefix)
    if conf is None:
        return None, f"non-reproducible violation: {msg}\n{canon(case)}"
    budget = 80
    chunk = max(1, len(prefix) // 2)
    while chunk >= 1 and budget > 0 and prefix:
        i = 0
        while i < len(prefix) and budget > 0:
            cand = prefix[:i] + prefix[i + chunk:]
            budget -= 1
            c2 = run_isolated(mod, case, cand)
            if c2 is not None:
                prefix, conf = cand, c2
            else:
                i += chunk
        if chunk == 1:
            break
        chunk //= 2
    note = (f" [fails only after {len(prefix)} earlier case(s) in the same process: the code under test keeps state "
            f"across calls; the replay file carries them as 'prefix']")
    return {"case": case, "kind": conf[0], "msg": conf[1] + note, "prefix": [json.loads(c) for c in prefix]}, None


def _run_enum(modname, cases, collect):
    mod = importlib.import_module(modname)
    NO_WARNINGS_ERROR[0] = "warnings_error" in getattr(mod, "ENV_EXCLUDE", ())
    acc = Acc()
    failure = None
    trace = []
    for case in cases:
        case = json.loads(canon(case))
        try:
            info = run_check(mod, case)
        except Violation as v:
            acc.evals += 1
            if collect:
                b = acc.buckets.setdefault(v.kind, {"count": 0, "case": case, "msg": str(v)})
                b["count"] += 1
                continue
            failure, err = _finalize(mod, case, str(v), trace)
            if err:
                return {"error": err}
            break
        trace.append(canon(case))
        acc.record(case, info)
    r = acc.out()
    r["failure"] = failure
    return r


def _run_hyp(modname, tier, seed, shard, n, do_shrink, collect):
    mod = importlib.import_module(modname)
    NO_WARNINGS_ERROR[0] = "warnings_error" in getattr(mod, "ENV_EXCLUDE", ())
    from hypothesis import given, settings, HealthCheck, Phase, Verbosity
    from hypothesis import seed as hseed
    import hypothesis.errors as herr
    acc = Acc()
    holder = {}
    trace = []

    def body(case):
        case = json.loads(canon(case))
        try:
            info = run_check(mod, case)
        except Violation as v:
            acc.evals += 1
            if collect:
                b = acc.buckets.setdefault(v.kind, {"count": 0, "case": case, "msg": str(v)})
                b["count"] += 1
                if len(canon(case)) < len(canon(b["case"])):
                    b["case"], b["msg"] = case, str(v)
                return
            holder["fail"] = (case, v.kind, str(v), len(trace))
            trace.append(canon(case))
            raise
        trace.append(canon(case))
        acc.record(case, info)

    phases = [Phase.explicit, Phase.generate] + ([Phase.shrink] if do_shrink else [])
    st = settings(max_examples=n, database=None, deadline=None, derandomize=False,
                  report_multiple_bugs=False, phases=phases, verbosity=Verbosity.quiet,
                  suppress_health_check=[HealthCheck.too_slow, HealthCheck.data_too_large,
                                         HealthCheck.large_base_example])
    from hypothesis import strategies as hst
    strat = hst.tuples(mod.strategy(tier), hst.integers(0, 13)).map(lambda t: with_env(t[0], t[1]))
    test = hseed(derive(seed, mod.PID, shard))(st(given(strat)(body)))
    failure = None
    try:
        test()
    except (Violation, herr.Flaky) as exc:
        # Flaky: the outcome changed between executions of one case -- if the library keeps state across calls
        # (e.g. a cache) that is itself how a violation shows.  Either way the last failing case must be made
        # reproducible against a freshly imported library, else it is a harness error, never a VIOLATION.
        if "fail" not in holder:
            return {"error": "flaky: " + traceback.format_exc()}
        case, kind, msg, pos = holder["fail"]
        failure, err = _finalize(mod, case, msg, trace[:pos])
        if err:
            return {"error": err + ("\n" + traceback.format_exc() if isinstance(exc, herr.Flaky) else "")}
    r = acc.out()
    r["failure"] = failure
    return r


def load_findings():
    p = os.path.join(VERIF, "known_findings.json")
    if not os.path.exists(p):
        return []
    with open(p) as fh:
        return json.load(fh)["findings"]


def open_finding(fid):
    """True iff known_findings.json lists finding `fid` with status open."""
    for f in load_findings():
        if f.get("id") == fid and f.get("status") == "open":
            return True
    return False


def ensure_env():
    if os.environ.get("PYTHONHASHSEED") != "0" or os.environ.get("PYTHONDONTWRITEBYTECODE") != "1":
        os.environ["PYTHONHASHSEED"] = "0"
        os.environ["PYTHONDONTWRITEBYTECODE"] = "1"
        os.execv(sys.executable, [sys.executable] + sys.argv)
    deps = os.path.join(VERIF, ".deps")
    if not os.path.isdir(os.path.join(deps, "mpmath")):
        import subprocess
        subprocess.run([sys.executable, "-m", "pip", "install", "-q", "--no-index", "--find-links",
                        "/opt/veriftools/wheels", "--target", deps, "mpmath"],
                       stdout=subprocess.DEVNULL, stderr=subprocess.DEVNULL)
    for p in (deps, VERIF, REPO):
        if p in sys.path:
            sys.path.remove(p)
        sys.path.insert(0, p)
    for m in [m for m in sys.modules if m == "gcmpy" or m.startswith("gcmpy.")]:
        del sys.modules[m]
    import gcmpy
    if not os.path.abspath(gcmpy.__file__).startswith(os.path.abspath(REPO) + os.sep):
        print(f"HARNESS-ERROR gcmpy imported from {gcmpy.__file__}, not from {REPO}")
        sys.exit(2)


BOOT = "import sys; sys.path.insert(0, sys.argv.pop(1)); from vlib.runner import main; sys.exit(main(sys.argv[1:]))"


def main(argv=None):
    import argparse
    ap = argparse.ArgumentParser()
    ap.add_argument("pid")
    ap.add_argument("--tier", default=os.environ.get("VERIF_TIER") or "quick")
    ap.add_argument("--replay")
    ap.add_argument("--collect", action="store_true", help="bucket violations instead of stopping")
    ap.add_argument("--no-evidence", action="store_true")
    ap.add_argument("--opt-pass", action="store_true",
                    help="(internal) reduced pass of the same check in an interpreter started with -O")
    a = ap.parse_args(argv)
    try:
        ensure_env()
    except SystemExit:
        raise
    except BaseException:
        print("HARNESS-ERROR " + traceback.format_exc())
        return 2
    pid = a.pid.upper()
    tier = a.tier if a.tier in ("quick", "thorough") else "quick"
    try:
        seed = int(os.environ.get("VERIF_SEED") or 0)
    except ValueError:
        seed = 0
    modname = "checks." + pid.lower()
    try:
        mod = importlib.import_module(modname)
        NO_WARNINGS_ERROR[0] = "warnings_error" in getattr(mod, "ENV_EXCLUDE", ())
    except BaseException:
        print("HARNESS-ERROR " + traceback.format_exc())
        return 2

    if a.replay:
        with open(a.replay) as fh:
            data = json.load(fh)
        if isinstance(data, dict) and data.get("interpreter_flags") == "-O" and not sys.flags.optimize:
            # found in the optimised-interpreter pass: replay it there
            return subprocess.call([sys.executable, "-O", "-W", "ignore", "-c", BOOT, VERIF] + list(argv))
        case = data["case"] if isinstance(data, dict) and "case" in data and "property" in data else data
        try:
            for c in (data.get("prefix") or []) if isinstance(data, dict) else []:
                try:
                    run_check(mod, c)
                except Violation:
                    pass
            info = run_check(mod, case)
        except Violation as v:
            print(f"replay: {v}")
            print(f"VIOLATION property={pid} replay={a.replay}")
            return 1
        except BaseException:
            print("HARNESS-ERROR " + traceback.format_exc())
            return 2
        if info and info.get("known"):
            for k in info["known"]:
                print(f"KNOWN-FINDING: property={pid} {k}")
        print(f"replay: property {pid} holds on {a.replay}")
        return 0

    t0 = time.time()
    shards, n = mod.BUDGET[tier]
    do_shrink = True if tier == "thorough" else getattr(mod, "SHRINK_IN_QUICK", True)
    shard0 = 0
    if a.opt_pass:
        # the same check in an interpreter that strips assert statements: a fifth of the generated budget, on
        # shards of its own, plus corpus and enumerated families
        n = max(2, n // 5)
        shard0 = 1000
    tasks = [("hyp", modname, tier, seed, shard0 + s, n, do_shrink, a.collect) for s in range(shards)]
    exhaustive = False
    # committed regression corpus (shrunk failures of earlier defects / seeded changes): always replayed
    cdir = os.path.join(VERIF, "corpus", pid)
    corpus = []
    if os.path.isdir(cdir):
        for fn in sorted(os.listdir(cdir)):
            if fn.endswith(".json"):
                with open(os.path.join(cdir, fn)) as fh:
                    d = json.load(fh)
                if isinstance(d, dict) and "case" in d and "property" in d:
                    corpus.append(list(d.get("prefix") or []) + [d["case"]])
                else:
                    corpus.append([d])
    for group in corpus:
        tasks.append(("enum", modname, group, a.collect))
    ncorpus = sum(len(g) for g in corpus)
    if hasattr(mod, "enumerated"):
        cases = list(mod.enumerated(tier, seed))
        # members 2, 4, ..., 12 of every thirteen of an enumerated family run under one of the process configurations
        cases = [with_env(c, {4: 0, 2: 1, 6: 2, 8: 3, 10: 4, 12: 5}.get(i % 13, 99)) for i, c in enumerate(cases)]
        if cases:
            exhaustive = bool(getattr(mod, "EXHAUSTIVE", False))
            per = max(1, min(getattr(mod, "ENUM_CHUNK", 50), (len(cases) + NPROC * 4 - 1) // (NPROC * 4)))
            for i in range(0, len(cases), per):
                tasks.append(("enum", modname, cases[i:i + per], a.collect))
    import multiprocessing as mp
    ctx = mp.get_context("fork")
    results = []
    # watchdog only: a run that exceeds it is a harness error (exit 2), never a verdict about the property
    limit = float(os.environ.get("VERIF_WATCHDOG_S") or (1800 if tier == "quick" else 10800))
    with ctx.Pool(min(NPROC, len(tasks))) as pool:
        it = pool.imap_unordered(_task, tasks, chunksize=1)
        workers = {p.pid for p in pool._pool}
        for _ in range(len(tasks)):
            while True:
                left = limit - (time.time() - t0)
                try:
                    results.append(it.next(timeout=min(15.0, max(1.0, left))))
                    break
                except mp.TimeoutError:
                    # a worker that died (killed by a signal, out of memory) is silently replaced by the pool and its
                    # task is never delivered: report that at once instead of waiting for the watchdog
                    now = {p.pid for p in pool._pool}
                    if not now >= workers:
                        pool.terminate()
                        print(f"HARNESS-ERROR a worker process died ({len(results)}/{len(tasks)} tasks done); no verdict")
                        return 2
                    workers |= now
                    if left <= 1.0:
                        pool.terminate()
                        print(f"HARNESS-ERROR watchdog: {pid} {tier} still running after {limit:.0f}s "
                              f"({len(results)}/{len(tasks)} tasks done); no verdict")
                        return 2

    errors = [r["error"] for r in results if "error" in r]
    if errors:
        print("HARNESS-ERROR in %d task(s); first:\n%s" % (len(errors), errors[0]))
        return 2

    evals = sum(r["evals"] for r in results)
    nt = set()
    classes = {}
    known = {}
    notes = {}
    inconclusive = 0
    samples = []
    buckets = {}
    failures = []
    for r in results:
        nt.update(r["nontrivial"])
        inconclusive += r["inconclusive"]
        for k, v in r["classes"].items():
            classes[k] = classes.get(k, 0) + v
        for k, v in r["known"].items():
            known[k] = known.get(k, 0) + v
        for k, v in r["notes"].items():
            cur = notes.get(k)
            notes[k] = v if cur is None else [min(cur[0], v[0]), max(cur[1], v[1]), cur[2] + v[2]]
        for s in r["samples"]:
            if len(samples) < 4:
                samples.append(s)
        for k, b in r["buckets"].items():
            cur = buckets.setdefault(k, {"count": 0, "case": b["case"], "msg": b["msg"]})
            cur["count"] += b["count"]
            if len(canon(b["case"])) < len(canon(cur["case"])):
                cur["case"], cur["msg"] = b["case"], b["msg"]
        if r.get("failure"):
            failures.append(r["failure"])

    # distinct failures by kind, smallest case each
    bykind = {}
    for f in failures:
        cur = bykind.get(f["kind"])
        if cur is None or len(canon(f["case"])) < len(canon(cur["case"])):
            bykind[f["kind"]] = f
    # second pass in an interpreter started with -O (assert statements are stripped there: a library whose behaviour
    # rests on an assert's side effect differs only in such a process)
    opt = None
    if not (a.opt_pass or a.collect or bykind or os.environ.get("VERIF_NO_OPT_PASS")):
        cp = subprocess.run([sys.executable, "-O", "-W", "ignore", "-c", BOOT, VERIF, pid, "--tier", tier, "--no-evidence", "--opt-pass"],
                            capture_output=True, text=True)
        m = re.search(r": (\d+) evaluations, (\d+) distinct non-trivial", cp.stdout)
        opt = {"returncode": cp.returncode, "evaluations": int(m.group(1)) if m else 0,
               "distinct_nontrivial": int(m.group(2)) if m else 0, "examples_per_shard": max(2, n // 5)}
        if cp.returncode not in (0, 1):
            print("HARNESS-ERROR in the optimised-interpreter pass:\n" + (cp.stdout + cp.stderr)[-3000:])
            return 2
        opt["output"] = cp.stdout if cp.returncode == 1 else ""
    wall = time.time() - t0

    if not a.no_evidence:
        ev = {
            "property_id": pid, "tier": tier, "seed": seed, "level": "exploration",
            "coverage": {
                "evaluations": evals, "distinct_nontrivial": len(nt),
                "rule": mod.RULE, "samples": samples,
                "class_histogram": dict(sorted(classes.items())),
                "inconclusive": inconclusive,
                "hypothesis_shards": shards, "examples_per_shard": n,
                "enumerated_cases": sum(len(t[2]) for t in tasks if t[0] == "enum") - ncorpus,
                "regression_corpus_cases": ncorpus,
                "exhaustive": exhaustive,
                "numeric_notes_min_max_count": notes,
                "known_findings_matched": known,
            },
            "assumptions": list(getattr(mod, "ASSUMPTIONS", [])),
            "wall_s": round(wall, 2),
            "violations": len(bykind) + (1 if opt and opt["returncode"] == 1 else 0),
        }
        if opt is not None:
            ev["coverage"]["optimised_interpreter_pass"] = {k: v for k, v in opt.items() if k != "output"}
        if exhaustive:
            ev["coverage"]["exhaustive_note"] = getattr(mod, "EXHAUSTIVE_NOTE", "")
        os.makedirs(os.path.join(VERIF, "evidence"), exist_ok=True)
        with open(os.path.join(VERIF, "evidence", f"{pid}.json"), "w") as fh:
            json.dump(ev, fh, indent=1, sort_keys=True)
            fh.write("\n")

    print(f"{pid} tier={tier} seed={seed}: {evals} evaluations, {len(nt)} distinct non-trivial, "
          f"{inconclusive} inconclusive, {wall:.1f}s")
    if classes:
        print("  classes: " + ", ".join(f"{k}={v}" for k, v in sorted(classes.items())))
    if a.collect:
        for k, b in sorted(buckets.items(), key=lambda kv: -kv[1]["count"]):
            print(f"  BUCKET {b['count']:6d}  {k}\n      {b['msg'][:300]}\n      case={canon(b['case'])[:600]}")
    for f in load_findings():
        if f.get("property") == pid and f.get("status") == "open":
            print(f"KNOWN-FINDING: property={pid} {f['what']} (matched {known.get(f['id'], 0)} cases this run)")
    if bykind:
        rdir = os.path.join(os.environ.get("VERIF_REPLAY_DIR") or os.path.join(VERIF, "replays"), pid)
        os.makedirs(rdir, exist_ok=True)
        for kind, f in sorted(bykind.items()):
            path = os.path.join(rdir, chash(f["case"]) + ".json")
            with open(path, "w") as fh:
                rec = {"property": pid, "kind": kind, "message": f["msg"][:4000], "seed": seed, "tier": tier, "case": f["case"]}
                if sys.flags.optimize:
                    rec["interpreter_flags"] = "-O"
                if f.get("prefix"):
                    rec["prefix"] = f["prefix"]
                json.dump(rec, fh, indent=1, sort_keys=True)
                fh.write("\n")
            print(f"  {f['msg'][:500]}")
            print(f"VIOLATION property={pid} replay={path}")
        return 1
    if opt and opt["returncode"] == 1:
        print("  in an interpreter started with -O:")
        for line in opt["output"].splitlines():
            if line.startswith("VIOLATION") or line.startswith("  ["):
                print(line)
        return 1
    return 0
